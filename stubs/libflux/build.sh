#!/bin/bash
# builds libflux.a + flux.pc in this directory (offline)
set -e
cd "$(dirname "$0")"
inc=$(cd /repo && GOFLAGS=-mod=mod GOPROXY=off go list -m -f '{{.Dir}}' github.com/influxdata/flux)/libflux/include
cc -c -O1 -w stub.c -o stub.o
ar rcs libflux.a stub.o
cat > flux.pc <<PC
Name: flux
Description: link stub for libflux (verification replay only)
Version: 0.200.0
Cflags: -I$inc
Libs: -L$(pwd) -lflux
PC
echo "libflux stub built"
