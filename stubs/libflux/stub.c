/* Link stub for libflux: lets test binaries of packages that import flux link and
 * initialise offline. Every entry point aborts loudly, except flux_get_env_stdlib
 * (returns an empty flatbuffer TypeEnvironment so that flux/runtime's package
 * initialiser succeeds) and flux_free_bytes (no-op for that static buffer).
 * Used only for counterexample replay; no verdict depends on flux behaviour. */
#include <stdio.h>
#include <stdlib.h>
#include <stddef.h>
struct flux_buffer_t { char *data; size_t len; };
static void die(const char *f) { fprintf(stderr, "libflux stub: %s called\n", f); abort(); }
static char empty_env[12] = {8,0,0,0,4,0,4,0,4,0,0,0};
void flux_get_env_stdlib(struct flux_buffer_t *b) { b->data = empty_env; b->len = 12; }
void flux_free_bytes(const char *p) { (void)p; }
#define STUBV(name) void name() { die(#name); }
#define STUBP(name) void *name() { die(#name); return 0; }
STUBV(flux_semantic_packages) STUBV(flux_free_error) STUBP(flux_error_str) STUBV(flux_error_print)
STUBP(flux_parse) STUBP(flux_ast_format) STUBP(flux_ast_get_error) STUBV(flux_free_ast_pkg)
STUBP(flux_merge_ast_pkgs) STUBP(flux_parse_json) STUBP(flux_ast_marshal_json)
STUBP(flux_new_stateful_analyzer) STUBV(flux_free_stateful_analyzer) STUBP(flux_analyze_with)
STUBP(flux_analyze) STUBP(flux_find_var_type) STUBV(flux_free_semantic_pkg) STUBP(flux_semantic_marshal_fb)
