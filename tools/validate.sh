#!/bin/bash
python3-vt - <<'PY'
import json,jsonschema,glob
jsonschema.validate(json.load(open('/verif/MANIFEST.json')),json.load(open('/root/.vp/MANIFEST.schema.json')))
es=json.load(open('/root/.vp/EVIDENCE.schema.json'))
for f in glob.glob('/verif/evidence/*.json'):
    jsonschema.validate(json.load(open(f)),es)
print('manifest+evidence valid')
PY
