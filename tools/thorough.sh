#!/bin/bash
# usage: thorough.sh <property-id>
# Thorough tier of one property:
#   1. the same obligations as the quick tier with the 6x solver budget on all four
#      solvers, plus the cross-check that no other solver answers sat on a discharged
#      obligation (govc --tier thorough); this decides the exit status;
#   2. self-test of the machinery (must-fail corpus): every seeded property-breaking
#      change under seeded/<id>-m*/ that is recorded as caught is applied to a scratch copy
#      of /repo (under /var/tmp, removed afterwards) and the quick check must still report
#      a VIOLATION there. A seed that is no longer caught is a defect of the machinery:
#      it is reported as SELFTEST-FAIL and turns a passing run into exit 2 (never into a
#      VIOLATION of the property, and it never hides one).
#   3. self-test of the translator (govc conform): the real functions under contract are run
#      on solver-chosen inputs and must behave as their symbolic execution predicts; a
#      disagreement is reported as SELFTEST-FAIL (exit 2), like a lost seed.
id=$1
cd /verif
./bin/govc check $id --tier thorough
rc=$?
fail=0; n=0
for d in seeded/$id-m*/; do
  [ -f $d/meta.json ] || continue
  python3 -c "import json,sys; sys.exit(0 if json.load(open('$d/meta.json'))['caught_by_check'] else 1)" || continue
  n=$((n+1))
  out=$(VERIF_TIER=quick tools/mutest.sh $id /verif/$d/patch.diff 2>&1); mrc=$?
  if [ $mrc -ne 1 ]; then
    echo "SELFTEST-FAIL: seeded change $(basename $d) is recorded as caught but the quick check of $id no longer reports a violation on it (exit $mrc)"
    fail=1
  else
    echo "selftest: $(basename $d) still caught ($(echo "$out" | grep -c '^VIOLATION') violations)"
  fi
done
echo "selftest: $n seeded changes replayed for $id"
cout=$(./bin/govc conform $id 2>&1); crc=$?
echo "$cout" | grep -E "^conformance|^CONFORMANCE-FAIL" | sed 's/^/selftest: /'
if [ $crc -ne 0 ]; then
  echo "SELFTEST-FAIL: translator conformance of $id (exit $crc): the generator's semantics disagrees with a real run"
  fail=1
fi
if [ $rc -eq 0 ] && [ $fail -ne 0 ]; then exit 2; fi
exit $rc
