#!/bin/bash
# usage: seedcheck.sh <property-id> <mN> <demo-dir-in-repo> [test-run-regex]
# Confirms a seeded mutation in its scratch worktree (/var/tmp/seed/<id>):
#   1. demo passes on the unmodified tree   2. patch applies   3. demo fails with the patch
#   4. the touched package's existing tests still pass with the patch
# then runs my quick check against a scratch copy of /repo with the patch applied, and
# files the mutation under /verif/seeded/<id>-<mN>/ with meta.json.
set -u
id=$1; m=$2; demodir=$3; run=${4:-.}
wt=${SEED_WT:-/var/tmp/seed/$id}
sd=$wt/_seed/${SEED_SRCM:-$m}
export GOFLAGS=-mod=mod GOPROXY=off PKG_CONFIG_PATH=/var/tmp/libflux-stub CGO_LDFLAGS=-L/var/tmp/libflux-stub
cd $wt || exit 3
git checkout -q -- . ; git clean -fdq -e _seed >/dev/null 2>&1
demos=$(ls $sd/*_test.go 2>/dev/null)
[ -z "$demos" ] && { echo "no demo test"; exit 3; }
names=""
for f in $demos; do cp $f $wt/$demodir/; names="$names $(basename $f)"; done
tests=$(grep -h -o '^func Test[A-Za-z0-9_]*' $demos | sed 's/func //' | paste -sd'|')
echo "== demo tests: $tests"
go test -vet=off -count=1 -timeout 300s -run "^($tests)\$" ./$demodir/ > /var/tmp/seed/$id-$m-clean.log 2>&1; rc_clean=$?
echo "demo on clean tree: rc=$rc_clean"
git apply $sd/patch.diff || { echo "PATCH DOES NOT APPLY"; exit 3; }
go build ./$demodir/ 2>&1 | tail -3
go test -vet=off -count=1 -timeout 300s -run "^($tests)\$" ./$demodir/ > /var/tmp/seed/$id-$m-patched.log 2>&1; rc_patched=$?
echo "demo with patch: rc=$rc_patched"
for f in $names; do rm -f $wt/$demodir/$f; done
pkgs=$(git diff --name-only | xargs -n1 dirname | sort -u | sed 's|^|./|')
go test -vet=off -count=1 -timeout 900s $pkgs > /var/tmp/seed/$id-$m-existing.log 2>&1; rc_exist=$?
echo "existing tests of $pkgs with patch: rc=$rc_exist"; tail -3 /var/tmp/seed/$id-$m-existing.log
git checkout -q -- .
cd /verif
./tools/mutest.sh $id $sd/patch.diff > /var/tmp/seed/$id-$m-check.log 2>&1; rc_check=$?
grep -c "^VIOLATION" /var/tmp/seed/$id-$m-check.log | sed 's/^/violations reported by my check: /'
grep "^VIOLATION" /var/tmp/seed/$id-$m-check.log | head -3 | cut -c1-220
echo "check rc=$rc_check"
if [ $rc_clean -eq 0 ] && [ $rc_patched -ne 0 ] && [ $rc_exist -eq 0 ]; then
  dst=/verif/seeded/$id-$m; mkdir -p $dst
  cp $sd/patch.diff $dst/; cp $demos $dst/; cp $sd/notes.md $dst/notes.md
  caught=false; [ $rc_check -eq 1 ] && caught=true
  python3 - "$id" "$m" "$demodir" "$caught" "$dst" <<'PY'
import json,sys,re
id,m,demodir,caught,dst=sys.argv[1:]
notes=open(dst+'/notes.md').read()
viol=[l.strip() for l in open(f'/var/tmp/seed/{id}-{m}-check.log') if l.startswith('VIOLATION')]
json.dump({"property":id,"mutation":m,"breaks":notes.split('\n\n')[0][:600],"needs_to_manifest":"see notes.md","demo_dir_in_repo":demodir,
 "confirmed":{"demo_passes_unpatched":True,"demo_fails_patched":True,"existing_tests_of_touched_packages_pass_patched":True,
   "commands":["tools/seedcheck.sh %s %s %s"%(id,m,demodir)]},
 "caught_by_check":caught=="true","violations":[re.sub(r'replay=\S+ ','',v)[:300] for v in viol[:5]]},open(dst+'/meta.json','w'),indent=1)
PY
  echo "KEPT in $dst (caught=$caught)"
else
  echo "NOT KEPT (confirmation failed)"
fi
