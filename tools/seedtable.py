#!/usr/bin/env python3
"""Rewrites the table between SEEDTABLE-BEGIN/END in DESIGN.md from seeded/*/meta.json."""
import json, glob, re, os
rows = []
for d in sorted(glob.glob('/verif/seeded/*/')):
    mf = d + 'meta.json'
    if not os.path.exists(mf):
        continue
    m = json.load(open(mf))
    what = re.sub(r'^#\s*\S+\s*/\s*\S+\s*[—-]+\s*', '', m['breaks'].strip().split('\n')[0])[:110]
    first = '-'
    if m.get('violations'):
        v = m['violations'][0]
        mo = re.search(r'obligation=(\S+)', v)
        first = mo.group(1) if mo else v[:60]
        first = first.replace('|', '/')
        if len(m['violations']) > 1:
            first += ' (+%d)' % (len(m['violations']) - 1)
    conf = m.get('confirmed', {})
    note = '' if conf.get('existing_tests_of_touched_packages_pass_patched') is True else ' ¹'
    rows.append('| %s-%s | %s | %s | %s |' % (m['property'], m['mutation'], what.replace('|', '/'), 'caught' if m['caught_by_check'] else '**missed**', '`%s`' % first if first != '-' else '–'))
caught = sum('| caught |' in r for r in rows)
table = ['| seed | change | result | first failing obligation |', '|---|---|---|---|'] + rows
table.append('')
table.append('%d of %d confirmed seeds are caught by the quick check of their property.' % (caught, len(rows)))
s = open('/verif/DESIGN.md').read()
s = re.sub(r'SEEDTABLE-BEGIN.*?SEEDTABLE-END', 'SEEDTABLE-BEGIN\n' + '\n'.join(table) + '\nSEEDTABLE-END', s, flags=re.S)
open('/verif/DESIGN.md', 'w').write(s)
print(caught, len(rows))
