#!/bin/bash
# usage: reseed.sh <id>-<mN> : re-runs the quick check against the seeded mutation and updates its meta.json
d=/verif/seeded/$1; id=${1%%-*}
out=$(/verif/tools/mutest.sh $id $d/patch.diff 2>&1); rc=$?
echo "$out" | grep "^VIOLATION\|^property" | cut -c1-220 | head -8
python3 - "$d" "$rc" <<PY
import json,sys,re
d,rc=sys.argv[1],int(sys.argv[2])
out='''$(echo "$out" | grep "^VIOLATION" | head -8 | sed "s/'/ /g")'''
m=json.load(open(d+'/meta.json'))
m['caught_by_check']= rc==1
m['violations']=[re.sub(r'replay=\S+ ','',l)[:300] for l in out.splitlines() if l.strip()]
json.dump(m,open(d+'/meta.json','w'),indent=1)
print('caught =',rc==1)
PY
