#!/usr/bin/env python3
"""Regenerates /verif/MANIFEST.json from claims.json (what is claimed, with level notes)
and properties.jsonl (everything not claimed goes under not_applicable with its reason)."""
import json, subprocess

props = [json.loads(l) for l in open('/verif/properties.jsonl')]
claims = json.load(open('/verif/claims.json'))
commits = subprocess.run(['git', '-C', '/repo', 'log', '--format=%H %s'], capture_output=True, text=True).stdout.splitlines()
hook_commits = [c.split()[0] for c in commits if ' verif hooks:' in ' ' + c]

TECH = "contract-based deductive verification: weakest-precondition VCs generated over go/ssa from contracts in comment-only verif_contracts.go files, discharged by z3-new/z3/cvc5"
checks = []
for pid, c in sorted(claims['claimed'].items()):
    checks.append({
        "property_id": pid,
        "quick_cmd": f"./bin/govc check {pid} --tier quick",
        "thorough_cmd": f"./tools/thorough.sh {pid}",
        "evidence_file": f"evidence/{pid}.json",
        "replay_cmd_template": "./bin/govc replay {path}",
        "engine": "govc",
        "level_claimed": {"category": "proof", "text": c["level_text"], "design_ref": c.get("design_ref", "DESIGN.md section 4")},
        "level_note": c["level_note"],
        "technique": c.get("technique", TECH),
    })
na = []
for p in props:
    if p['id'] in claims['claimed']:
        continue
    na.append({"property_id": p['id'], "reason": claims['not_applicable'].get(p['id'], "not claimed yet: contracts for this property are not written (build in progress); see DESIGN.md section 5")})
m = {
    "version": 1,
    "setup_cmd": "./setup.sh",
    "hooks": {
        "guard": "verif",
        "enable": "-tags verif: the only repository changes are comment-only files verif_contracts.go (//go:build verif) holding the contracts; govc loads the packages with the tag on",
        "baseline_off_cmd": claims.get("baseline_off_cmd", "cd /repo && go build ./... && go test -vet=off -count=1 ./..."),
        "source_commits": hook_commits,
        "add_only": True,
    },
    "engines": [{
        "name": "govc", "path": "engine/", "serves_properties": sorted(claims['claimed'].keys()),
        "kind_free_text": "home-built deductive verifier for Go: contract parser (Gobra-style //@ comments), VC generator over go/ssa (x/tools v0.41.0, vendored), SMT portfolio (z3-new 5.1, z3 4.8.12, cvc5 1.0.3), golden obligation lists, vacuity canaries, counterexample replay",
    }],
    "checks": checks,
    "not_applicable": na,
    "notes": claims.get("notes", ""),
}
json.dump(m, open('/verif/MANIFEST.json', 'w'), indent=1)
print(f"MANIFEST.json: {len(checks)} checks, {len(na)} not_applicable, {len(hook_commits)} hook commits")
