#!/bin/bash
# usage: mutest.sh <property-id> <patch-file|-e sed-expr file> ...
# Copies /repo's working tree to a scratch dir outside /repo and /verif, applies the
# change there, runs the quick check against the copy, and removes the copy.
set -u
id=$1; shift
scratch=/var/tmp/govc-mut-$$
rsync -a --exclude .git /repo/ $scratch/
if [ "$1" = "-e" ]; then
  sed -i "$2" $scratch/$3 || { echo "sed failed"; rm -rf $scratch; exit 3; }
  (cd $scratch && diff -u /repo/$3 $3 | head -20)
  if cmp -s /repo/$3 $scratch/$3; then echo "MUTATION DID NOT APPLY"; rm -rf $scratch; exit 3; fi
else
  (cd $scratch && patch -p1 --quiet < "$1") || { echo "patch failed"; rm -rf $scratch; exit 3; }
fi
cd /verif
VERIF_NO_EVIDENCE=1 ./bin/govc check $id --repo $scratch --scratch ${MUTEST_ARGS:-} 2>&1 | grep -v WARN | sed "s#$scratch#<scratch>#g"
rc=${PIPESTATUS[0]}
rm -rf $scratch
exit $rc
