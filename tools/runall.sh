#!/bin/bash
# runs every claimed check on the current tree, prints one line per property
cd /verif
rc=0
for p in $(python3 -c "import json; print(' '.join(sorted(json.load(open('claims.json'))['claimed'])))"); do
  out=$(./bin/govc check $p "$@" 2>&1 | grep -v WARN)
  echo "$out" | grep "^VIOLATION\|^KNOWN-FINDING\|generator:" | cut -c1-260
  echo "$out" | grep "^property" | cut -c1-140
  echo "$out" | grep -q "^VIOLATION" && rc=1
done
exit $rc
