#!/bin/bash
# Builds the verification machinery from files under /verif only (offline).
set -e
cd /verif/engine
export GOFLAGS=-mod=vendor GOPROXY=off GOTOOLCHAIN=auto
go build -o /verif/bin/govc ./cmd/govc
echo "govc built"
# link stub for libflux: lets `go test` binaries of packages that import flux link offline
# (only used when a counterexample is replayed on the real code)
bash /verif/stubs/libflux/build.sh || echo "libflux stub not built: replay is limited to packages that do not link flux"
