#!/bin/bash
# Builds the verification machinery from files under /verif only (offline).
set -e
cd /verif/engine
export GOFLAGS=-mod=vendor GOPROXY=off GOTOOLCHAIN=auto
go build -o /verif/bin/govc ./cmd/govc
echo "govc built"
