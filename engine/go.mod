module govc

go 1.26.3

require golang.org/x/tools v0.41.0

require (
	golang.org/x/mod v0.32.0 // indirect
	golang.org/x/sync v0.19.0 // indirect
)
