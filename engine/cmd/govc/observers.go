package main

import (
	"go/types"
)

// linkObservers: when a concrete value is boxed into an interface that has a
// specification with pure argument-less methods, the uninterpreted function that
// stands for each such method is tied, for this value, to what the concrete
// method computes (its loop-free body, executed in place). This is dynamic
// dispatch for the values whose concrete type is visible.
func (x *Exec) linkObservers(st *State, iface Val, concrete types.Type, val Val) {
	if x.inQuant > 0 || x.linking {
		return
	}
	it, ok := iface.Typ.Underlying().(*types.Interface)
	if !ok {
		return
	}
	name := types.TypeString(iface.Typ, func(p *types.Package) string { return p.Name() })
	is, ok := x.DB.Ifaces[name]
	if !ok {
		return
	}
	ms := x.P.Prog.MethodSets.MethodSet(concrete)
	for i := 0; i < it.NumMethods(); i++ {
		m := it.Method(i)
		spec, ok := is.Methods[m.Name()]
		if !ok || !spec.Pure {
			continue
		}
		sig := m.Type().(*types.Signature)
		if sig.Params().Len() != 0 || sig.Results().Len() != 1 {
			continue
		}
		sel := ms.Lookup(m.Pkg(), m.Name())
		if sel == nil {
			continue
		}
		fn := x.P.Prog.MethodValue(sel)
		if fn == nil || fn.Blocks == nil || !inlinable(fn) || x.depth >= maxInlineDepth {
			continue
		}
		func() {
			defer func() {
				if r := recover(); r != nil {
					if _, isTool := r.(toolErr); !isTool {
						panic(r)
					}
					// the concrete method is outside the modelled subset: no link (sound: the
					// observer stays unconstrained for this value)
				}
			}()
			x.linking = true
			defer func() { x.linking = false }()
			sub := st.clone()
			saved := x.nosafety
			x.nosafety = true
			rs := x.inlineCallBind(sub, fn, []Val{val}, nil, true, nil)
			x.nosafety = saved
			if len(rs) != 1 {
				return
			}
			uf := x.ifaceUF(is, spec, iface, nil, sig, st)
			if uf.T.Sort == rs[0].T.Sort {
				x.assumeUnder(st.Guard, mkEq(uf.T, rs[0].T))
			}
		}()
	}
}
