package main

import (
	"fmt"
	"os"
	"sort"
	"strings"
)

// Translator conformance (self-test of the SSA -> SMT semantics, the largest piece of new
// trusted code): for every function under contract that is loop-free, calls nothing the
// generator abstracts, and whose inputs can be built from a model, the solver is asked
// for a model of "some execution reaches a return" (inputs AND the outputs the symbolic
// execution predicts); the REAL function is then run on those inputs (same overlay
// harness as counterexample replay) and must behave as predicted: either it returns
// exactly the predicted outputs, or -- with inputs and the outputs it really produced
// asserted back -- the function's script is still satisfiable. A disagreement means the
// generator's semantics of some Go construct is wrong.
//
//	govc conform <property-id> [--repo DIR]
//
// exit 0: every function that could be tested conforms; exit 2: CONFORMANCE-FAIL.
func cmdConform(args []string) int {
	repo := "/repo"
	all := false
	var ids []string
	for i := 0; i < len(args); i++ {
		if args[i] == "--repo" {
			repo = args[i+1]
			i++
		} else if args[i] == "--all" {
			all = true
		} else {
			ids = append(ids, args[i])
		}
	}
	if len(ids) != 1 {
		usage()
	}
	id := ids[0]
	props, err := loadProps()
	if err != nil {
		fmt.Fprintln(os.Stderr, err)
		return 2
	}
	cfg, ok := props[id]
	if !ok {
		fmt.Fprintf(os.Stderr, "property %s is not configured\n", id)
		return 2
	}
	db, err := LoadSpecs(repo, cfg.Packages, verifRoot+"/contracts/assumed")
	if err != nil {
		fmt.Fprintln(os.Stderr, "contracts:", err)
		return 2
	}
	P, err := LoadProgram(repo, cfg.Packages)
	if err != nil {
		fmt.Fprintln(os.Stderr, "load:", err)
		return 2
	}
	var keys []string
	for k, c := range db.Contracts {
		if hasProp(c.Properties, id) && !c.Trusted {
			keys = append(keys, k)
		}
	}
	sort.Strings(keys)
	tested, conform, skipped, failed := 0, 0, 0, 0
	for _, k := range keys {
		for _, fn := range P.FindFunc(baseKey(k)) {
			r := VerifyFunc(P, db, fn, db.Contracts[k])
			if r.Err != nil || (r.LoopCount > 0 && !all) {
				skipped++
				continue
			}
			abstract := false
			for _, a := range r.Assumed {
				if strings.Contains(a, "havoc") || strings.Contains(a, "arbitrary") || strings.Contains(a, "abstract") ||
					strings.Contains(a, "opaque") || strings.Contains(a, "unconstrained") || strings.Contains(a, "interface") {
					abstract = true
				}
			}
			if abstract && !all {
				skipped++
				continue
			}
			var exit *Obligation
			for _, o := range r.Obls {
				if o.Cover && strings.HasSuffix(o.Name, "/cover:exit") && o.Replay != nil {
					exit = o
				}
			}
			if exit == nil {
				skipped++
				continue
			}
			// "not (not guard)": TryReplay asserts the negation of the goal
			fake := &Obligation{Name: r.Key + "/conformance", Kind: "post", Func: r.Key, Prefix: exit.Prefix,
				Goal: "(not " + exit.Goal + ")", Script: exit.Script, Replay: exit.Replay}
			rr := TryReplay(P, db, id, fake)
			if rr == nil || !rr.Attempted {
				skipped++
				note := ""
				if rr != nil {
					note = rr.Note
				}
				fmt.Printf("conform: %-70s not tested (%s)\n", r.Key, truncate(note, 90))
				continue
			}
			if len(rr.Observed) == 0 {
				// the harness could not run (e.g. the package's test binary does not start in
				// this sandbox): nothing was observed, so nothing can disagree
				skipped++
				fmt.Printf("conform: %-70s not tested (the generated test did not build or run: %s)\n", r.Key, truncate(lastLine(rr.Output), 100))
				continue
			}
			tested++
			if rr.Reproduced {
				conform++
				fmt.Printf("conform: %-70s ok (%d inputs)\n", r.Key, len(rr.Inputs))
				continue
			}
			if _, panicked := rr.Observed["panic"]; panicked {
				// the model satisfies the preconditions and the real code panics: that is a
				// safety matter (reported by the check itself when safety is on), not a
				// disagreement about semantics
				fmt.Printf("conform: %-70s real run panics on a model of the exit state (%s)\n", r.Key, rr.Observed["panic"])
				continue
			}
			failed++
			fmt.Printf("CONFORMANCE-FAIL: %s: the real function does not behave as its symbolic execution predicts\n  inputs: %s\n  %s\n", r.Key, strings.Join(rr.Inputs, "; "), rr.Note)
		}
	}
	fmt.Printf("conformance %s: %d functions tested against the real code, %d conform, %d disagree, %d not testable (loops, abstracted calls, inputs that cannot be built)\n",
		id, tested, conform, failed, skipped)
	if failed > 0 {
		return 2
	}
	return 0
}

func lastLine(s string) string {
	ls := strings.Split(strings.TrimSpace(s), "\n")
	for i := len(ls) - 1; i >= 0; i-- {
		if t := strings.TrimSpace(ls[i]); t != "" && !strings.HasPrefix(t, "FAIL") && !strings.HasPrefix(t, "exit status") {
			return t
		}
	}
	return ""
}
