package main

import (
	"fmt"
	"os"
	"strings"
)

func usage() {
	fmt.Fprintln(os.Stderr, `usage:
  govc check <property-id> [--tier quick|thorough] [--repo DIR] [--update-golden] [-v]
  govc dump  <pkg> <func-key-substring> [--repo DIR]
  govc replay <replay.json>
  govc conform <property-id> [--repo DIR]`)
	os.Exit(2)
}

func main() {
	if len(os.Args) < 2 {
		usage()
	}
	switch os.Args[1] {
	case "dump":
		cmdDump(os.Args[2:])
	case "check":
		os.Exit(cmdCheck(os.Args[2:]))
	case "replay":
		os.Exit(cmdReplay(os.Args[2:]))
	case "conform":
		os.Exit(cmdConform(os.Args[2:]))
	default:
		usage()
	}
}

func cmdDump(args []string) {
	repo := "/repo"
	var rest []string
	for i := 0; i < len(args); i++ {
		if args[i] == "--repo" {
			repo = args[i+1]
			i++
		} else {
			rest = append(rest, args[i])
		}
	}
	if len(rest) < 2 {
		usage()
	}
	P, err := LoadProgram(repo, []string{rest[0]})
	if err != nil {
		fmt.Fprintln(os.Stderr, "load:", err)
		os.Exit(2)
	}
	for k, f := range P.AllFunctions() {
		if strings.Contains(k, rest[1]) {
			fmt.Println("=====", k)
			f.WriteTo(os.Stdout)
		}
	}
}
