package main

import (
	"fmt"
	"go/token"
	"go/types"
	"math/big"
	"strings"

	"golang.org/x/tools/go/ssa"
)

func srcOf(x *Exec, ins ssa.Instruction) string {
	return "" // filled lazily by callers that have an expression text
}

// lineText is the source line a position is on.
func (x *Exec) lineText(pos token.Pos) string {
	if !pos.IsValid() {
		return ""
	}
	p := x.P.Prog.Fset.Position(pos)
	lines := x.P.sourceLines(p.Filename)
	if p.Line-1 < len(lines) {
		return lines[p.Line-1]
	}
	return ""
}

func (x *Exec) exprText(pos token.Pos, fallback string) string {
	if !pos.IsValid() {
		return fallback
	}
	p := x.P.Prog.Fset.Position(pos)
	lines := x.P.sourceLines(p.Filename)
	if p.Line-1 < len(lines) {
		l := lines[p.Line-1]
		if p.Column-1 < len(l) {
			l = l[p.Column-1:]
		}
		if k := strings.Index(l, "//"); k >= 0 {
			l = l[:k] // comments are not part of the obligation's name
		}
		l = strings.TrimSpace(l)
		if len(l) > 40 {
			l = l[:40]
		}
		return l
	}
	return fallback
}

func (x *Exec) instr(fr *Frame, b *ssa.BasicBlock, st *State, ins ssa.Instruction) {
	switch v := ins.(type) {
	case *ssa.DebugRef:
		return
	case *ssa.Alloc:
		x.alloc(fr, st, v)
	case *ssa.Store:
		addr := x.val(fr, v.Addr)
		val := x.val(fr, v.Val)
		t := pointee(v.Addr.Type())
		x.checkNil(fr, st, addr, ins, v.Pos())
		x.checkGuard(fr, st, addr, true, ins, v.Pos())
		if val.Fn != nil && val.T.S == "" {
			val.T = intLit(1)
		}
		x.storePtr(st, addr, t, x.materialize(st, val, v.Val.Type()))
	case *ssa.UnOp:
		x.unop(fr, st, v)
	case *ssa.BinOp:
		a, c := x.val(fr, v.X), x.val(fr, v.Y)
		r := x.binop(fr, st, v.Op, a, c, v.X.Type(), v.Y.Type(), v.Type(), ins, v.Pos())
		x.setVal(fr, v, Val{T: r, Typ: v.Type()})
	case *ssa.FieldAddr:
		p := x.val(fr, v.X)
		x.checkNil(fr, st, p, ins, v.Pos())
		x.setVal(fr, v, Val{Addr: x.fieldAddr(p, pointee(v.X.Type()), v.Field), Typ: v.Type()})
	case *ssa.Field:
		s := x.val(fr, v.X)
		su, _ := asStruct(v.X.Type())
		ss := x.S.SortOf(v.X.Type())
		x.setVal(fr, v, Val{T: Term{app(x.S.FieldSel(ss, su, v.Field), s.T), x.S.SortOf(v.Type())}, Typ: v.Type()})
	case *ssa.IndexAddr:
		x.indexAddr(fr, st, v)
	case *ssa.Index:
		x.index(fr, st, v)
	case *ssa.Slice:
		x.sliceOp(fr, st, v)
	case *ssa.MakeSlice:
		x.makeSlice(fr, st, v)
	case *ssa.Call:
		x.call(fr, st, v, v.Common())
	case *ssa.Extract:
		t := x.val(fr, v.Tuple)
		if t.Tuple == nil || v.Index >= len(t.Tuple) {
			panic(toolErr("extract from non-tuple in " + fr.fn.Name()))
		}
		r := t.Tuple[v.Index]
		r.Typ = v.Type()
		fr.vals[v] = r
	case *ssa.Convert:
		x.convert(fr, st, v)
	case *ssa.ChangeType:
		s := x.val(fr, v.X)
		s.Typ = v.Type()
		fr.vals[v] = s
	case *ssa.MakeInterface:
		x.makeInterface(fr, st, v)
	case *ssa.ChangeInterface:
		s := x.val(fr, v.X)
		s.Typ = v.Type()
		fr.vals[v] = s
	case *ssa.TypeAssert:
		x.typeAssert(fr, st, v)
	case *ssa.MakeClosure:
		var bind []Val
		for _, bv := range v.Bindings {
			bind = append(bind, x.val(fr, bv))
		}
		x.setVal(fr, v, Val{Fn: v.Fn.(*ssa.Function), Bind: bind, Typ: v.Type(), T: intLit(1)})
	case *ssa.If:
		fr.cond[b] = x.val(fr, v.Cond).T
	case *ssa.Jump:
	case *ssa.Return:
		var rs []Val
		for _, r := range v.Results {
			rv := x.val(fr, r)
			if rv.Fn != nil && rv.T.S == "" {
				rv.T = intLit(1)
			}
			if rv.Addr != nil {
				rv = Val{T: x.materialize(st, rv, r.Type()), Typ: r.Type()}
			}
			rs = append(rs, rv)
		}
		fr.retVals = append(fr.retVals, rs)
		fr.retState = append(fr.retState, st.clone())
		fr.retBlock = append(fr.retBlock, b)
	case *ssa.Panic:
		x.panicInstr(fr, st, v)
	case *ssa.Defer:
		fr.defers = append(fr.defers, deferred{guard: st.Guard, call: v})
	case *ssa.RunDefers:
		x.runDefers(fr, st)
	case *ssa.MakeMap:
		x.makeMap(fr, st, v)
	case *ssa.MapUpdate:
		x.mapUpdate(fr, st, v)
	case *ssa.Lookup:
		x.lookup(fr, st, v)
	case *ssa.Range:
		x.rangeInstr(fr, st, v)
	case *ssa.Next:
		x.nextInstr(fr, st, v)
	case *ssa.SliceToArrayPointer:
		panic(toolErr("SliceToArrayPointer not modelled"))
	case *ssa.MakeChan:
		x.chanAssumption()
		ref := x.declare("chan", "Int")
		na := x.declare("alloc@ch", "Int")
		x.assume(mkEq(ref, Term{app("+", st.Alloc, intLit(1)), "Int"}))
		x.assume(mkEq(na, ref))
		st.Alloc = na
		x.markAlloc()
		x.setVal(fr, v, Val{T: ref, Typ: v.Type()})
	case *ssa.Send:
		// the value leaves through the channel; nothing modelled changes
		x.chanAssumption()
	case *ssa.Go:
		// one schedule: the goroutine runs to completion where it is spawned; what it
		// sends on channels is not tracked (every receive yields an arbitrary value)
		x.chanAssumption()
		x.doCall(fr, st, v, v.Common(), types.NewTuple())
	case *ssa.Select:
		x.chanAssumption()
		x.selectInstr(fr, st, v)
	default:
		panic(toolErr(fmt.Sprintf("unsupported instruction %T in %s", ins, fr.fn.Name())))
	}
}

// materialize turns a symbolic value into a single SMT term of its type.
func (x *Exec) materialize(st *State, v Val, t types.Type) Term {
	if v.Addr != nil {
		// The address of a field of an object escapes as a value (e.g. &w.Name put into
		// a filter struct). It becomes an opaque reference, a function of the object and
		// the field; what is read through it later is unconstrained (an over-
		// approximation), and writes through it are not seen by the field. Only allowed
		// for field addresses without projections.
		a := v.Addr
		if a.Kind == akField && len(a.Path) == 0 {
			fn := fmt.Sprintf("addrof$%s$%s", strings.TrimPrefix(a.SSort, "S_"), sanitize(a.Struct.Field(a.Field).Name()))
			x.declUF(fn, "(Int) Int")
			r := Term{app(fn, a.Ref), "Int"}
			x.assumed["escaping field address "+fn+": reads through the escaped pointer are unconstrained, writes through it are not tracked"] = true
			x.assume(Term{app(">", r, intLit(0)), "Bool"})
			return r
		}
		if a.Kind == akElem && len(a.Path) == 0 {
			// &s[i]: an opaque reference, a function of the backing array and the index
			// (same caveats as above)
			fn := "elemptr$" + x.S.typeTag(a.RootT)
			x.declUF(fn, fmt.Sprintf("(Int %s) Int", x.S.Idx()))
			r := Term{app(fn, a.Ref, a.Idx), "Int"}
			x.assume(Term{app(">", r, intLit(0)), "Bool"})
			if su, ok := asStruct(a.RootT); ok && !x.discover {
				// &s[i] of a struct element: what the pointer points at is the element as it is
				// now (a snapshot: a later write to s[i] through the slice is not seen through
				// the pointer, and a write through the pointer is not seen in s[i])
				x.assumed["escaping element address "+fn+": the pointer's target is a snapshot of the element at the time the address was taken (later writes on either side are not propagated to the other)"] = true
				ss := x.S.SortOf(a.RootT)
				elem := x.loadAddr(st, a)
				for i := 0; i < su.NumFields(); i++ {
					hn, hs := x.S.FieldHeap(ss, su, i)
					if h, ok := st.Heaps[hn]; ok {
						_ = hs
						fs := x.S.SortOf(su.Field(i).Type())
						x.assumeUnder(st.Guard, mkEq(mkSelect(h, r, fs), Term{app(x.S.FieldSel(ss, su, i), elem), fs}))
					}
				}
				return r
			}
			x.assumed["escaping element address "+fn+": reads through the escaped pointer are unconstrained, writes through it are not tracked"] = true
			return r
		}
		panic(toolErr("interior address escapes (stored/returned/passed): " + t.String()))
	}
	if v.Tuple != nil {
		panic(toolErr("tuple used as a value"))
	}
	if v.T.S == "" {
		if v.Fn != nil {
			return intLit(1)
		}
		return x.zeroOf(t)
	}
	return v.T
}

func (x *Exec) alloc(fr *Frame, st *State, v *ssa.Alloc) {
	ref := x.define("new", Term{app("+", st.Alloc, intLit(1)), "Int"})
	st.Alloc = ref
	if fr.top {
		x.markAlloc()
	}
	t := pointee(v.Type())
	p := Val{T: ref, Typ: v.Type()}
	x.storePtr(st, p, t, x.zeroOf(t))
	fr.vals[v] = p
	if su, isStruct := asStruct(t); !isStruct {
		if _, isArr := t.Underlying().(*types.Array); !isArr && addrPrivate(v, 0) {
			hn, _ := x.S.CellHeapT(t)
			x.privCells = append(x.privCells, privCell{heap: hn, ref: ref})
		}
	} else if addrPrivate(v, 0) {
		// a struct-typed local lives in its fields' heaps
		ss := x.S.SortOf(t)
		for i := 0; i < su.NumFields(); i++ {
			hn, _ := x.S.FieldHeap(ss, su, i)
			x.privCells = append(x.privCells, privCell{heap: hn, ref: ref})
		}
	}
}

func (x *Exec) markAlloc() {
	if x.curWrite != nil {
		x.curWrite["$alloc"] = true
	}
}

func (x *Exec) checkNil(fr *Frame, st *State, p Val, ins ssa.Instruction, pos token.Pos) {
	if p.Addr != nil {
		return
	}
	if strings.HasPrefix(p.T.S, "new!") {
		return
	}
	name := x.safetyName("nil", fr, ins, x.exprText(pos, ins.String()))
	x.oblige("nil", name, st.Guard, mkNot(mkEq(p.T, intLit(0))), "nil dereference: "+ins.String(), pos, true)
}

func (x *Exec) unop(fr *Frame, st *State, v *ssa.UnOp) {
	a := x.val(fr, v.X)
	switch v.Op {
	case token.MUL: // load
		t := v.Type()
		x.checkNil(fr, st, a, v, v.Pos())
		x.checkGuard(fr, st, a, false, v, v.Pos())
		r := x.loadPtr(st, a, t)
		if len(r.S) > 48 {
			r = x.define(fr.prefix+v.Name(), r)
		}
		x.assumeUnder(st.Guard, x.typeInv(r, t, 0))
		x.assumeUnder(st.Guard, x.refsBelow(r, t, st.Alloc, 0))
		fr.vals[v] = Val{T: r, Typ: t}
	case token.NOT:
		x.setVal(fr, v, Val{T: mkNot(a.T), Typ: v.Type()})
	case token.SUB:
		t := v.Type()
		if isFloat(t) {
			x.setVal(fr, v, Val{T: Term{app("fp.neg", a.T), a.T.Sort}, Typ: t})
			return
		}
		zero := x.intConst(big.NewInt(0), t)
		r := x.binop(fr, st, token.SUB, Val{T: zero, Typ: t}, a, t, t, t, v, v.Pos())
		x.setVal(fr, v, Val{T: r, Typ: t})
	case token.XOR:
		t := v.Type()
		if x.mode == ModeBV {
			x.setVal(fr, v, Val{T: Term{app("bvnot", a.T), a.T.Sort}, Typ: t})
			return
		}
		// ^x == -x-1 (signed) or max-x (unsigned)
		b := t.Underlying().(*types.Basic)
		_, hi := intRange(b)
		_, signed := intWidth(b)
		if signed {
			x.setVal(fr, v, Val{T: Term{fmt.Sprintf("(- (- %s) 1)", a.T.S), "Int"}, Typ: t})
		} else {
			x.setVal(fr, v, Val{T: Term{fmt.Sprintf("(- %s %s)", bigLit(hi).S, a.T.S), "Int"}, Typ: t})
		}
	case token.ARROW:
		// a receive yields an arbitrary well-typed value (and, with ",ok", an arbitrary flag)
		x.chanAssumption()
		fr.vals[v] = x.freshVal(fr.prefix+"recv", v.Type(), st)
	default:
		panic(toolErr("unsupported unary op " + v.Op.String()))
	}
}

func isFloat(t types.Type) bool {
	b, ok := t.Underlying().(*types.Basic)
	return ok && b.Info()&types.IsFloat != 0
}

func isString(t types.Type) bool {
	b, ok := t.Underlying().(*types.Basic)
	return ok && b.Info()&types.IsString != 0
}

func isInteger(t types.Type) bool {
	b, ok := t.Underlying().(*types.Basic)
	return ok && b.Info()&types.IsInteger != 0
}

func isUnsigned(t types.Type) bool {
	b, ok := t.Underlying().(*types.Basic)
	return ok && b.Info()&types.IsUnsigned != 0
}

func pow2(n int) *big.Int { return new(big.Int).Lsh(big.NewInt(1), uint(n)) }

// wrapInt reduces a mathematical integer to the range of Go type t.
func wrapInt(v Term, t types.Type) Term {
	b := t.Underlying().(*types.Basic)
	w, signed := intWidth(b)
	m := pow2(w)
	if !signed {
		return Term{fmt.Sprintf("(mod %s %s)", v.S, m.String()), "Int"}
	}
	h := pow2(w - 1)
	return Term{fmt.Sprintf("(- (mod (+ %s %s) %s) %s)", v.S, h.String(), m.String(), h.String()), "Int"}
}

func inRange(v Term, t types.Type) Term {
	b := t.Underlying().(*types.Basic)
	lo, hi := intRange(b)
	return Term{fmt.Sprintf("(and (<= %s %s) (<= %s %s))", bigLit(lo).S, v.S, v.S, bigLit(hi).S), "Bool"}
}

func termIsLit(t Term) (*big.Int, bool) {
	s := t.S
	neg := false
	if strings.HasPrefix(s, "(- ") && strings.HasSuffix(s, ")") && !strings.Contains(s[3:], " ") {
		neg = true
		s = s[3 : len(s)-1]
	}
	if strings.HasPrefix(s, "(_ bv") {
		var n big.Int
		f := strings.Fields(s[5:])
		if len(f) == 2 {
			if _, ok := n.SetString(f[0], 10); ok {
				return &n, true
			}
		}
		return nil, false
	}
	n, ok := new(big.Int).SetString(s, 10)
	if !ok {
		return nil, false
	}
	if neg {
		n.Neg(n)
	}
	return n, true
}

func (x *Exec) binop(fr *Frame, st *State, op token.Token, a, b Val, ta, tb, tr types.Type, ins ssa.Instruction, pos token.Pos) Term {
	// comparison of non-numeric kinds
	switch op {
	case token.EQL, token.NEQ:
		if !isInteger(ta) && !isFloat(ta) {
			at, bt := a.T, b.T
			if a.Fn != nil || b.Fn != nil {
				panic(toolErr("comparison of function values"))
			}
			if a.Addr != nil || b.Addr != nil {
				panic(toolErr("comparison of interior addresses"))
			}
			if at.Sort != bt.Sort {
				// interface vs concrete nil etc.
				panic(toolErr(fmt.Sprintf("comparison of %s and %s", at.Sort, bt.Sort)))
			}
			r := mkEq(at, bt)
			if op == token.NEQ {
				r = mkNot(r)
			}
			return r
		}
	}
	if isString(ta) {
		x.declUF("strcat", "(Str Str) Str")
		x.declUF("strlt", "(Str Str) Bool")
		switch op {
		case token.ADD:
			r := Term{app("strcat", a.T, b.T), "Str"}
			x.assume(Term{fmt.Sprintf("(= (strlen %s) (+ (strlen %s) (strlen %s)))", r.S, a.T.S, b.T.S), "Bool"})
			return r
		case token.LSS:
			return Term{app("strlt", a.T, b.T), "Bool"}
		case token.GTR:
			return Term{app("strlt", b.T, a.T), "Bool"}
		case token.LEQ:
			return mkNot(Term{app("strlt", b.T, a.T), "Bool"})
		case token.GEQ:
			return mkNot(Term{app("strlt", a.T, b.T), "Bool"})
		}
		panic(toolErr("unsupported string op " + op.String()))
	}
	if isFloat(ta) {
		return x.floatOp(op, a.T, b.T)
	}
	if b, ok := ta.Underlying().(*types.Basic); ok && b.Info()&types.IsBoolean != 0 {
		panic(toolErr("unsupported bool op " + op.String()))
	}
	if x.mode == ModeBV {
		return x.binopBV(fr, st, op, a.T, b.T, ta, tb, ins, pos)
	}
	return x.binopInt(fr, st, op, a.T, b.T, ta, tb, tr, ins, pos)
}

func (x *Exec) declUF(name, sig string) {
	if x.ufDecl[name] {
		return
	}
	x.ufDecl[name] = true
	x.S.decls = append(x.S.decls, fmt.Sprintf("(declare-fun %s %s)", name, sig))
}

func (x *Exec) floatOp(op token.Token, a, b Term) Term {
	switch op {
	case token.ADD:
		return Term{app("fp.add RNE", a, b), a.Sort}
	case token.SUB:
		return Term{app("fp.sub RNE", a, b), a.Sort}
	case token.MUL:
		return Term{app("fp.mul RNE", a, b), a.Sort}
	case token.QUO:
		return Term{app("fp.div RNE", a, b), a.Sort}
	case token.EQL:
		return Term{app("fp.eq", a, b), "Bool"}
	case token.NEQ:
		return mkNot(Term{app("fp.eq", a, b), "Bool"})
	case token.LSS:
		return Term{app("fp.lt", a, b), "Bool"}
	case token.LEQ:
		return Term{app("fp.leq", a, b), "Bool"}
	case token.GTR:
		return Term{app("fp.gt", a, b), "Bool"}
	case token.GEQ:
		return Term{app("fp.geq", a, b), "Bool"}
	}
	panic(toolErr("unsupported float op " + op.String()))
}

func (x *Exec) binopInt(fr *Frame, st *State, op token.Token, a, b Term, ta, tb, tr types.Type, ins ssa.Instruction, pos token.Pos) Term {
	cmp := func(o string) Term { return Term{app(o, a, b), "Bool"} }
	switch op {
	case token.EQL:
		return mkEq(a, b)
	case token.NEQ:
		return mkNot(mkEq(a, b))
	case token.LSS:
		return cmp("<")
	case token.LEQ:
		return cmp("<=")
	case token.GTR:
		return cmp(">")
	case token.GEQ:
		return cmp(">=")
	}
	unsigned := isUnsigned(ta)
	arith := func(r Term) Term {
		if unsigned || x.wraps {
			return wrapInt(r, ta)
		}
		if fr != nil {
			r = x.defineIfBig("ar", r)
			name := x.safetyName("ovf", fr, ins, x.exprText(pos, ins.String()))
			x.oblige("ovf", name, st.Guard, inRange(r, ta), "signed overflow (int model): "+ins.String(), pos, true)
		}
		return r
	}
	switch op {
	case token.ADD:
		return arith(Term{app("+", a, b), "Int"})
	case token.SUB:
		return arith(Term{app("-", a, b), "Int"})
	case token.MUL:
		return arith(Term{app("*", a, b), "Int"})
	case token.QUO, token.REM:
		if fr != nil {
			if _, lit := termIsLit(b); !lit {
				name := x.safetyName("div", fr, ins, x.exprText(pos, ins.String()))
				x.oblige("div", name, st.Guard, mkNot(mkEq(b, intLit(0))), "division by zero: "+ins.String(), pos, true)
			}
		}
		if unsigned {
			if op == token.QUO {
				return Term{app("div", a, b), "Int"}
			}
			return Term{app("mod", a, b), "Int"}
		}
		x.needGoDiv()
		if op == token.QUO {
			// MinInt / -1 wraps
			return wrapIfNeeded(Term{app("godiv", a, b), "Int"}, ta, b)
		}
		return Term{app("gomod", a, b), "Int"}
	case token.SHL, token.SHR:
		n, ok := termIsLit(b)
		if !ok {
			if fr != nil && x.inQuant == 0 {
				x.assumed["shift by a symbolic count in int mode abstracted to an arbitrary value of its type"] = true
				r := x.declare("shiftop", "Int")
				x.assume(inRange(r, tr))
				return r
			}
			panic(toolErr("symbolic shift count in int mode (use mode bv): " + ins.String()))
		}
		w, _ := intWidth(ta.Underlying().(*types.Basic))
		if n.Sign() < 0 {
			panic(toolErr("negative constant shift"))
		}
		if n.Cmp(big.NewInt(int64(w))) >= 0 {
			if op == token.SHL || unsigned {
				return intLit(0)
			}
			return Term{fmt.Sprintf("(ite (< %s 0) (- 1) 0)", a.S), "Int"}
		}
		p := pow2(int(n.Int64()))
		if op == token.SHL {
			r := Term{fmt.Sprintf("(* %s %s)", a.S, p.String()), "Int"}
			return wrapInt(r, ta) // shifts never panic; they wrap
		}
		return Term{fmt.Sprintf("(div %s %s)", a.S, p.String()), "Int"} // floor division = arithmetic shift
	case token.AND:
		// x & (2^k-1) on non-negative x
		if n, ok := termIsLit(b); ok && isMask(n) {
			if unsigned {
				return Term{fmt.Sprintf("(mod %s %s)", a.S, new(big.Int).Add(n, big.NewInt(1)).String()), "Int"}
			}
			return Term{fmt.Sprintf("(mod %s %s)", a.S, new(big.Int).Add(n, big.NewInt(1)).String()), "Int"}
		}
		if n, ok := termIsLit(a); ok && isMask(n) {
			return Term{fmt.Sprintf("(mod %s %s)", b.S, new(big.Int).Add(n, big.NewInt(1)).String()), "Int"}
		}
	}
	if fr != nil && x.inQuant == 0 {
		// A bit operation that the integer model does not express: its result is left
		// unconstrained within the type's range (an over-approximation: anything proved
		// holds for every value the real operation could produce).
		x.assumed["bitwise operation in int mode abstracted to an arbitrary value of its type: "+op.String()] = true
		r := x.declare("bitop", "Int")
		x.assume(inRange(r, tr))
		return r
	}
	panic(toolErr("bitwise operator " + op.String() + " in int mode (use mode bv): " + ins.String()))
}

func isMask(n *big.Int) bool {
	if n.Sign() <= 0 {
		return false
	}
	m := new(big.Int).Add(n, big.NewInt(1))
	return new(big.Int).And(m, n).Sign() == 0
}

func wrapIfNeeded(r Term, t types.Type, divisor Term) Term {
	if n, ok := termIsLit(divisor); ok && n.Cmp(big.NewInt(-1)) != 0 {
		return r
	}
	return wrapInt(r, t)
}

func (x *Exec) needGoDiv() {
	if x.ufDecl["godiv"] {
		return
	}
	x.ufDecl["godiv"] = true
	x.S.decls = append(x.S.decls,
		"(define-fun godiv ((a Int) (b Int)) Int (ite (>= a 0) (ite (> b 0) (div a b) (- (div a (- b)))) (ite (> b 0) (- (div (- a) b)) (div (- a) (- b)))))",
		"(define-fun gomod ((a Int) (b Int)) Int (- a (* b (godiv a b))))")
}

func (x *Exec) binopBV(fr *Frame, st *State, op token.Token, a, b Term, ta, tb types.Type, ins ssa.Instruction, pos token.Pos) Term {
	unsigned := isUnsigned(ta)
	bo := func(o string) Term { return Term{app(o, a, b), a.Sort} }
	cmp := func(s, u string) Term {
		if unsigned {
			return Term{app(u, a, b), "Bool"}
		}
		return Term{app(s, a, b), "Bool"}
	}
	switch op {
	case token.EQL:
		return mkEq(a, b)
	case token.NEQ:
		return mkNot(mkEq(a, b))
	case token.LSS:
		return cmp("bvslt", "bvult")
	case token.LEQ:
		return cmp("bvsle", "bvule")
	case token.GTR:
		return cmp("bvsgt", "bvugt")
	case token.GEQ:
		return cmp("bvsge", "bvuge")
	case token.ADD:
		return bo("bvadd")
	case token.SUB:
		return bo("bvsub")
	case token.MUL:
		return bo("bvmul")
	case token.AND:
		return bo("bvand")
	case token.OR:
		return bo("bvor")
	case token.XOR:
		return bo("bvxor")
	case token.AND_NOT:
		return Term{app("bvand", a, Term{app("bvnot", b), b.Sort}), a.Sort}
	case token.QUO, token.REM:
		if fr != nil {
			if _, lit := termIsLit(b); !lit {
				w, _ := intWidth(ta.Underlying().(*types.Basic))
				name := x.safetyName("div", fr, ins, x.exprText(pos, ins.String()))
				x.oblige("div", name, st.Guard, mkNot(mkEq(b, bvLit(big.NewInt(0), w))), "division by zero: "+ins.String(), pos, true)
			}
		}
		if op == token.QUO {
			if unsigned {
				return bo("bvudiv")
			}
			return bo("bvsdiv")
		}
		if unsigned {
			return bo("bvurem")
		}
		return bo("bvsrem")
	case token.SHL, token.SHR:
		wa, _ := intWidth(ta.Underlying().(*types.Basic))
		wb, sb := intWidth(tb.Underlying().(*types.Basic))
		if wb == 0 {
			wb, sb = 64, true
		}
		if sb && fr != nil {
			if _, lit := termIsLit(b); !lit {
				name := x.safetyName("shift", fr, ins, x.exprText(pos, ins.String()))
				x.oblige("shift", name, st.Guard, Term{app("bvsge", b, bvLit(big.NewInt(0), wb)), "Bool"}, "negative shift count: "+ins.String(), pos, true)
			}
		}
		// bring the count to the width of the shifted operand, saturating
		var cnt Term
		var big_ Term // count >= width
		switch {
		case wb == wa:
			cnt = b
			big_ = Term{app("bvuge", b, bvLit(big.NewInt(int64(wa)), wa)), "Bool"}
		case wb < wa:
			cnt = Term{fmt.Sprintf("((_ zero_extend %d) %s)", wa-wb, b.S), bvSort(wa)}
			big_ = Term{app("bvuge", cnt, bvLit(big.NewInt(int64(wa)), wa)), "Bool"}
		default:
			cnt = Term{fmt.Sprintf("((_ extract %d 0) %s)", wa-1, b.S), bvSort(wa)}
			big_ = Term{app("bvuge", b, bvLit(big.NewInt(int64(wa)), wb)), "Bool"}
		}
		if n, ok := termIsLit(b); ok {
			if n.Cmp(big.NewInt(int64(wa))) >= 0 {
				big_ = tTrue
			} else {
				big_ = tFalse
			}
		}
		zero := bvLit(big.NewInt(0), wa)
		if op == token.SHL {
			return mkIte(big_, zero, Term{app("bvshl", a, cnt), a.Sort})
		}
		if unsigned {
			return mkIte(big_, zero, Term{app("bvlshr", a, cnt), a.Sort})
		}
		fill := Term{fmt.Sprintf("(ite (bvslt %s %s) (bvnot %s) %s)", a.S, zero.S, zero.S, zero.S), a.Sort}
		return mkIte(big_, fill, Term{app("bvashr", a, cnt), a.Sort})
	}
	panic(toolErr("unsupported bv op " + op.String()))
}

// ---------- conversions ----------

func (x *Exec) convert(fr *Frame, st *State, v *ssa.Convert) {
	a := x.val(fr, v.X)
	from, to := v.X.Type(), v.Type()
	r := x.convertTerm(st, a.T, from, to)
	x.setVal(fr, v, Val{T: r, Typ: to})
}

func (x *Exec) convertTerm(st *State, a Term, from, to types.Type) Term {
	switch {
	case isInteger(from) && isInteger(to):
		fb, tb := from.Underlying().(*types.Basic), to.Underlying().(*types.Basic)
		wf, sf := intWidth(fb)
		wt, stt := intWidth(tb)
		if x.mode == ModeBV {
			switch {
			case wf == wt:
				return Term{a.S, bvSort(wt)}
			case wf > wt:
				return Term{fmt.Sprintf("((_ extract %d 0) %s)", wt-1, a.S), bvSort(wt)}
			case sf:
				return Term{fmt.Sprintf("((_ sign_extend %d) %s)", wt-wf, a.S), bvSort(wt)}
			default:
				return Term{fmt.Sprintf("((_ zero_extend %d) %s)", wt-wf, a.S), bvSort(wt)}
			}
		}
		flo, fhi := intRange(fb)
		tlo, thi := intRange(tb)
		_ = stt
		if flo.Cmp(tlo) >= 0 && fhi.Cmp(thi) <= 0 {
			return a
		}
		if n, ok := termIsLit(a); ok && n.Cmp(tlo) >= 0 && n.Cmp(thi) <= 0 {
			return a
		}
		return wrapInt(a, to)
	case isInteger(from) && isFloat(to):
		fb := from.Underlying().(*types.Basic)
		_, sf := intWidth(fb)
		fs := "11 53"
		if to.Underlying().(*types.Basic).Kind() == types.Float32 {
			fs = "8 24"
		}
		if x.mode == ModeBV {
			if sf {
				return Term{fmt.Sprintf("((_ to_fp %s) RNE %s)", fs, a.S), x.S.SortOf(to)}
			}
			return Term{fmt.Sprintf("((_ to_fp_unsigned %s) RNE %s)", fs, a.S), x.S.SortOf(to)}
		}
		return Term{fmt.Sprintf("((_ to_fp %s) RNE (to_real %s))", fs, a.S), x.S.SortOf(to)}
	case isFloat(from) && isInteger(to):
		tb := to.Underlying().(*types.Basic)
		wt, stt := intWidth(tb)
		if x.mode == ModeBV {
			if stt {
				return Term{fmt.Sprintf("((_ fp.to_sbv %d) RTZ %s)", wt, a.S), bvSort(wt)}
			}
			return Term{fmt.Sprintf("((_ fp.to_ubv %d) RTZ %s)", wt, a.S), bvSort(wt)}
		}
		// int mode: value is unspecified outside the range; use an uninterpreted result constrained when in range
		x.needGoDiv()
		return Term{fmt.Sprintf("(let ((r (fp.to_real (fp.roundToIntegral RTZ %s)))) (to_int r))", a.S), "Int"}
	case isFloat(from) && isFloat(to):
		if x.S.SortOf(from) == x.S.SortOf(to) {
			return a
		}
		fs := "11 53"
		if to.Underlying().(*types.Basic).Kind() == types.Float32 {
			fs = "8 24"
		}
		return Term{fmt.Sprintf("((_ to_fp %s) RNE %s)", fs, a.S), x.S.SortOf(to)}
	case isString(to) || isString(from):
		// string <-> []byte / []rune / integer: uninterpreted, content-preserving
		fs, ts := x.S.SortOf(from), x.S.SortOf(to)
		if fs == ts {
			return a
		}
		if fs == "Slice" && ts == "Str" {
			// content of the slice at this state
			es := x.S.SortOf(from.Underlying().(*types.Slice).Elem())
			hn, hs := x.S.ElemHeapT(from.Underlying().(*types.Slice).Elem())
			h := x.heapGet(st, hn, hs)
			fn := "bytes2str$" + sortTag(es)
			x.declUF(fn, fmt.Sprintf("(%s %s %s) Str", arraySort(x.S.Idx(), es), x.S.Idx(), x.S.Idx()))
			_, off, ln, _ := x.sliceParts(a)
			arr := Term{app("select", h, Term{app("s_ref", a), "Int"}), arraySort(x.S.Idx(), es)}
			r := Term{app(fn, arr, off, ln), "Str"}
			x.assume(mkEq(Term{app("strlen", r), "Int"}, x.idxToInt(ln)))
			return r
		}
		if fs == "Str" && ts == "Slice" {
			// fresh backing array holding the string's bytes
			ref := x.define("new", Term{app("+", st.Alloc, intLit(1)), "Int"})
			st.Alloc = ref
			x.markAlloc()
			ln := x.intToIdx(Term{app("strlen", a), "Int"})
			z := x.S.IdxLit(0)
			sl := Term{app("mk_slice", ref, z, ln, ln), "Slice"}
			es := x.S.SortOf(to.Underlying().(*types.Slice).Elem())
			hn, hs := x.S.ElemHeapT(to.Underlying().(*types.Slice).Elem())
			h := x.heapGet(st, hn, hs)
			fn := "str2bytes$" + sortTag(es)
			x.declUF(fn, fmt.Sprintf("(Str) %s", arraySort(x.S.Idx(), es)))
			x.heapSet(st, hn, mkStore(h, ref, Term{app(fn, a), arraySort(x.S.Idx(), es)}))
			return sl
		}
		fn := "conv$" + sortTag(fs) + "$" + sortTag(ts)
		x.declUF(fn, fmt.Sprintf("(%s) %s", fs, ts))
		return Term{app(fn, a), ts}
	}
	fs, ts := x.S.SortOf(from), x.S.SortOf(to)
	if fs == ts {
		return a
	}
	panic(toolErr(fmt.Sprintf("unsupported conversion %s -> %s", from, to)))
}

func (x *Exec) idxToInt(t Term) Term {
	if x.mode == ModeBV {
		return Term{app("bv2nat", t), "Int"}
	}
	return t
}

func (x *Exec) intToIdx(t Term) Term {
	if x.mode == ModeBV {
		return Term{fmt.Sprintf("((_ int2bv 64) %s)", t.S), bvSort(64)}
	}
	return t
}

// ---------- interfaces ----------

func (x *Exec) typeID(t types.Type) Term {
	key := types.TypeString(t, nil)
	id, ok := x.S.typeIDs[key]
	if !ok {
		id = len(x.S.typeIDs) + 1
		x.S.typeIDs[key] = id
	}
	return intLit(int64(id))
}

func (x *Exec) boxFns(t types.Type, needUnbox bool) (box, unbox string) {
	srt := x.S.SortOf(t)
	tag := sortTag(srt)
	box, unbox = "box$"+tag, "unbox$"+tag
	if !x.ufDecl[box] {
		x.ufDecl[box] = true
		x.S.decls = append(x.S.decls, fmt.Sprintf("(declare-fun %s (%s) Int)", box, srt))
	}
	if needUnbox && !x.ufDecl[unbox] {
		// the inverse is only axiomatised when a type assertion needs it, so that scripts
		// without type assertions stay quantifier-free (and solvers can return models)
		x.ufDecl[unbox] = true
		x.S.decls = append(x.S.decls,
			fmt.Sprintf("(declare-fun %s (Int) %s)", unbox, srt),
			fmt.Sprintf("(assert (forall ((v %s)) (! (= (%s (%s v)) v) :pattern ((%s v)))))", srt, unbox, box, box))
	}
	return
}

func (x *Exec) makeInterface(fr *Frame, st *State, v *ssa.MakeInterface) {
	a := x.val(fr, v.X)
	t := v.X.Type()
	var payload Term
	switch t.Underlying().(type) {
	case *types.Pointer, *types.Map, *types.Chan, *types.Signature:
		if a.Addr != nil {
			panic(toolErr("interior address boxed into interface"))
		}
		payload = a.T
		if payload.S == "" {
			payload = intLit(1)
		}
	default:
		box, _ := x.boxFns(t, false)
		payload = Term{app(box, a.T), "Int"}
		x.assume(Term{app(">", payload, intLit(0)), "Bool"})
	}
	dyn := a
	dyn.Typ = t
	iv := Val{T: Term{app("mk_iface", x.typeID(t), payload), "Iface"}, Typ: v.Type(), Dyn: &dyn}
	x.setVal(fr, v, iv)
	x.linkObservers(st, fr.vals[v], t, a)
}

func (x *Exec) typeAssert(fr *Frame, st *State, v *ssa.TypeAssert) {
	a := x.val(fr, v.X)
	at := v.AssertedType
	if _, isIface := at.Underlying().(*types.Interface); isIface {
		// interface-to-interface: succeeds iff the dynamic type implements it; unknown
		okc := x.declare("impl", "Bool")
		res := Val{T: mkIte(okc, a.T, x.zeroOf(at)), Typ: at}
		if v.CommaOk {
			fr.vals[v] = Val{Tuple: []Val{res, {T: okc, Typ: types.Typ[types.Bool]}}, Typ: v.Type()}
			return
		}
		name := x.safetyName("assert", fr, v, x.exprText(v.Pos(), v.String()))
		x.oblige("assert", name, st.Guard, okc, "type assertion may panic: "+v.String(), v.Pos(), true)
		fr.vals[v] = res
		return
	}
	is := mkEq(Term{app("i_typ", a.T), "Int"}, x.typeID(at))
	var payload Term
	pv := Term{app("i_val", a.T), "Int"}
	switch at.Underlying().(type) {
	case *types.Pointer, *types.Map, *types.Chan, *types.Signature:
		payload = pv
	default:
		_, unbox := x.boxFns(at, true)
		payload = Term{app(unbox, pv), x.S.SortOf(at)}
	}
	if v.CommaOk {
		res := Val{T: mkIte(is, payload, x.zeroOf(at)), Typ: at}
		fr.vals[v] = Val{Tuple: []Val{res, {T: is, Typ: types.Typ[types.Bool]}}, Typ: v.Type()}
		return
	}
	name := x.safetyName("assert", fr, v, x.exprText(v.Pos(), v.String()))
	x.oblige("assert", name, st.Guard, is, "type assertion may panic: "+v.String(), v.Pos(), true)
	x.setVal(fr, v, Val{T: payload, Typ: at})
}

func (x *Exec) panicInstr(fr *Frame, st *State, v *ssa.Panic) {
	if x.contract != nil && x.contract.MayPanic {
		return
	}
	name := x.safetyName("panic", fr, v, x.exprText(v.Pos(), "panic"))
	x.oblige("panic", name, st.Guard, tFalse, "explicit panic reachable", v.Pos(), true)
}
