package main

import (
	"encoding/json"
	"fmt"
	"os"
	"path/filepath"
	"runtime"
	"sort"
	"strconv"
	"strings"
	"time"
)

type PropCfg struct {
	Packages  []string `json:"packages"`
	Title     string   `json:"title"`
	Residual  []string `json:"residual"`  // what is not decided
	Bounded   []string `json:"bounded"`   // bounded stand-ins, never counted as proved
	ExtraTrust []string `json:"trusted"`  // extra trusted-base lines
}

var verifRoot = "/verif"

func loadProps() (map[string]*PropCfg, error) {
	data, err := os.ReadFile(filepath.Join(verifRoot, "props.json"))
	if err != nil {
		return nil, err
	}
	m := map[string]*PropCfg{}
	if err := json.Unmarshal(data, &m); err != nil {
		return nil, err
	}
	return m, nil
}

type finding struct {
	Kind       string // finding | fixed
	Property   string
	Obligation string
	Text       string
}

func loadFindings() []finding {
	var out []finding
	data, err := os.ReadFile(filepath.Join(verifRoot, "KNOWN_FINDINGS.txt"))
	if err != nil {
		return nil
	}
	for _, ln := range strings.Split(string(data), "\n") {
		ln = strings.TrimSpace(ln)
		if ln == "" || strings.HasPrefix(ln, "#") {
			continue
		}
		var f finding
		switch {
		case strings.HasPrefix(ln, "finding:"):
			f.Kind = "finding"
			ln = strings.TrimSpace(strings.TrimPrefix(ln, "finding:"))
		case strings.HasPrefix(ln, "fixed:"):
			f.Kind = "fixed"
			ln = strings.TrimSpace(strings.TrimPrefix(ln, "fixed:"))
		default:
			continue
		}
		for _, fld := range strings.Fields(ln) {
			if strings.HasPrefix(fld, "property=") {
				f.Property = strings.TrimPrefix(fld, "property=")
			}
			if strings.HasPrefix(fld, "obligation=") {
				f.Obligation = strings.TrimPrefix(fld, "obligation=")
			}
		}
		f.Text = ln
		out = append(out, f)
	}
	return out
}

func loadGolden(id string) (map[string]bool, error) {
	data, err := os.ReadFile(filepath.Join(verifRoot, "golden", id+".obligations"))
	if err != nil {
		return nil, err
	}
	m := map[string]bool{}
	for _, ln := range strings.Split(string(data), "\n") {
		ln = strings.TrimSpace(ln)
		if ln != "" && !strings.HasPrefix(ln, "#") {
			m[ln] = true
		}
	}
	return m, nil
}

func cmdCheck(args []string) int {
	t0 := time.Now()
	tier := os.Getenv("VERIF_TIER")
	if tier == "" {
		tier = "quick"
	}
	repo := "/repo"
	update := false
	verbose := false
	dump := ""
	only := ""
	scratch := false
	var ids []string
	for i := 0; i < len(args); i++ {
		switch args[i] {
		case "--tier":
			tier = args[i+1]
			i++
		case "--repo":
			repo = args[i+1]
			i++
		case "--update-golden":
			update = true
		case "-v":
			verbose = true
		case "--dump":
			dump = args[i+1]
			i++
		case "--scratch":
			scratch = true
		case "--only":
			only = args[i+1]
			i++
		default:
			ids = append(ids, args[i])
		}
	}
	if len(ids) != 1 {
		usage()
	}
	id := ids[0]
	seed := 0
	if s := os.Getenv("VERIF_SEED"); s != "" {
		seed, _ = strconv.Atoi(s)
	}
	props, err := loadProps()
	if err != nil {
		fmt.Fprintln(os.Stderr, "props.json:", err)
		return 2
	}
	cfg, ok := props[id]
	if !ok {
		fmt.Fprintf(os.Stderr, "property %s is not configured (not claimed)\n", id)
		return 2
	}
	db, err := LoadSpecs(repo, cfg.Packages, filepath.Join(verifRoot, "contracts", "assumed"))
	if err != nil {
		fmt.Fprintln(os.Stderr, "contracts:", err)
		return 2
	}
	P, err := LoadProgram(repo, cfg.Packages)
	loadErr := err
	var results []*FuncResult
	timeout := 10
	if tier == "thorough" {
		timeout = 60
	}
	if loadErr == nil {
		var keys []string
		for k, c := range db.Contracts {
			if hasProp(c.Properties, id) {
				keys = append(keys, k)
			}
		}
		sort.Strings(keys)
		for _, k := range keys {
			c := db.Contracts[k]
			if only != "" && !strings.Contains(k, only) {
				continue
			}
			fns := P.FindFunc(baseKey(k))
			if len(fns) == 0 {
				results = append(results, &FuncResult{Key: ShortKey(k), Err: fmt.Errorf("%s: function under contract not found in the current tree", ShortKey(k))})
				continue
			}
			for _, fn := range fns {
				results = append(results, VerifyFunc(P, db, fn, c))
			}
		}
		var lnames []string
		for n, l := range db.Lemmas {
			if hasProp(l.Properties, id) {
				lnames = append(lnames, n)
			}
		}
		sort.Strings(lnames)
		for _, n := range lnames {
			if only != "" && !strings.Contains(n, only) {
				continue
			}
			results = append(results, VerifyLemma(P, db, db.Lemmas[n]))
		}
	}
	var all []*Obligation
	for _, r := range results {
		all = append(all, r.Obls...)
	}
	DischargeAll(all, timeout, tier == "thorough", runtime.NumCPU())
	// rename tolerance: proof hints (invariants, variants, witnesses) that name a local
	// which no longer exists are rebound if -- and only if -- the function then verifies
	rebound := false
	for i, r := range results {
		if r.fn == nil || r.ct == nil {
			continue
		}
		need := r.Err != nil && unknownIdentRe.MatchString(r.Err.Error())
		if !need && r.Err == nil && len(r.UnresolvedHints) > 0 {
			for _, o := range r.Obls {
				if !o.Cover && !o.MustFail && o.Result != "unsat" {
					need = true
				}
			}
		}
		if !need {
			continue
		}
		if nr := rebindVerify(P, db, r.fn, r.ct, r, timeout); nr != nil {
			results[i] = nr
			rebound = true
		}
	}
	if rebound {
		all = all[:0]
		for _, r := range results {
			all = append(all, r.Obls...)
		}
	}

	golden, gerr := loadGolden(id)
	if gerr != nil {
		golden = map[string]bool{}
	}
	findings := loadFindings()
	knownObl := map[string]finding{}
	for _, f := range findings {
		if f.Kind == "finding" && f.Property == id {
			knownObl[f.Obligation] = f
		}
	}

	type viol struct {
		Obligation string `json:"obligation"`
		Reason     string `json:"reason"`
		Detail     string `json:"detail"`
		Kind       string `json:"kind,omitempty"`
		Pos        string `json:"pos,omitempty"`
		Solver     string `json:"solver_output,omitempty"`
		Replay     *ReplayResult `json:"replay,omitempty"`
		Query      string `json:"query_file,omitempty"`
	}
	var viols []viol
	var known []string
	generated := map[string]*Obligation{}
	discharged, total := 0, 0
	byBackend := map[string]int{}
	solverTime := 0.0
	var toolErrs []string
	var goodNames []string
	covers, canaries := 0, 0
	for _, r := range results {
		if r.Err != nil {
			toolErrs = append(toolErrs, r.Err.Error())
		}
	}
	// a function with a failing obligation assumes that obligation afterwards, which can
	// make the rest of its script contradictory: vacuity reports are only meaningful for
	// functions all of whose real obligations hold
	funcFails := map[string]bool{}
	for _, o := range all {
		if !o.Cover && !o.MustFail && o.Result != "unsat" {
			funcFails[o.Func] = true
		}
	}
	for _, o := range all {
		generated[o.Name] = o
		solverTime += o.TimeS
		if dump != "" {
			dumpQuery(dump, o)
		}
		if (o.Cover || o.MustFail) && funcFails[o.Func] {
			if o.Cover {
				covers++
			} else {
				canaries++
			}
			continue
		}
		switch {
		case o.Cover:
			covers++
			if o.Result == "unsat" {
				viols = append(viols, viol{Obligation: o.Name, Reason: "vacuous", Detail: "cover check failed: " + o.Detail + " (premises are contradictory)", Pos: o.Pos})
			}
			continue
		case o.MustFail:
			canaries++
			if o.Result == "unsat" {
				viols = append(viols, viol{Obligation: o.Name, Reason: "vacuous", Detail: "canary was discharged: the contract proves a negated postcondition, so the proof is vacuous", Pos: o.Pos})
			}
			continue
		}
		total++
		if o.Result == "unsat" {
			discharged++
			byBackend[o.Backend]++
			goodNames = append(goodNames, o.Name)
			if _, isKnown := knownObl[o.Name]; isKnown {
				// a listed finding that no longer fails is fine (and is reported so the list can be pruned)
				fmt.Printf("NOTE: listed finding %s now discharges\n", o.Name)
			}
			continue
		}
		if f, isKnown := knownObl[o.Name]; isKnown {
			// a listed finding is not counted among the obligations claimed as proved
			total--
			known = append(known, "KNOWN-FINDING: "+f.Text)
			continue
		}
		v := viol{Obligation: o.Name, Reason: o.Result, Detail: o.Detail, Pos: o.Pos, Solver: truncate(o.Model, 4000)}
		viols = append(viols, v)
	}
	// golden names that were not generated
	var gnames []string
	for g := range golden {
		gnames = append(gnames, g)
	}
	sort.Strings(gnames)
	failedFn := map[string]string{}
	for _, r := range results {
		if r.Err != nil {
			failedFn[r.Key] = r.Err.Error()
		}
	}
	reportedFn := map[string]bool{}
	fnGenerated := map[string]bool{}
	for _, r := range results {
		if r.Err == nil && len(r.Obls) > 0 {
			fnGenerated[r.Key] = true
		}
	}
	safetyRenamed := 0
	for _, g := range gnames {
		if only != "" {
			break
		}
		if _, ok := generated[g]; !ok {
			fnKey := g
			if k := strings.LastIndex(g, "/"); k >= 0 {
				fnKey = g[:k]
			}
			// obligation names may contain '/', the function key is the prefix before the kind
			for fk := range failedFn {
				if strings.HasPrefix(g, fk+"/") {
					fnKey = fk
				}
			}
			for fk := range fnGenerated {
				if strings.HasPrefix(g, fk+"/") {
					fnKey = fk
				}
			}
			if msg, failed := failedFn[fnKey]; failed {
				if !reportedFn[fnKey] {
					reportedFn[fnKey] = true
					viols = append(viols, viol{Obligation: fnKey + "/generate", Reason: "not-generated",
						Detail: "no obligations could be generated for a function whose obligations discharge on the unchanged tree: " + msg})
				}
				continue
			}
			reason := "not-generated"
			detail := "an obligation that discharges on the unchanged tree was not generated from the current tree (function/loop/expression it was attached to is gone or left the modelled subset)"
			for _, te := range toolErrs {
				if strings.HasPrefix(te, strings.SplitN(g, "/", 2)[0]+":") {
					detail += "; generator: " + te
				}
			}
			if _, isKnown := knownObl[g]; isKnown {
				continue
			}
			// Implicit safety obligations are derived from the code's own expressions
			// (their name carries the source text of the indexed/dereferenced expression).
			// When the code is edited -- a local renamed, an expression rewritten -- the old
			// name disappears and the new expression gets its own obligation, which is
			// generated and must discharge like any other. Only contract-level obligations
			// (post, inv, dec, pre@, frame, lemma, guarantee), whose names come from the
			// contract text, are pinned by name.
			if isSafetyName(g[len(fnKey):]) && fnGenerated[fnKey] {
				safetyRenamed++
				continue
			}
			viols = append(viols, viol{Obligation: g, Reason: reason, Detail: detail})
		}
	}
	if loadErr != nil {
		viols = append(viols, viol{Obligation: "load", Reason: "load-error", Detail: loadErr.Error()})
	}
	// Assumption scan: every assumption the generator made (trusted contracts, havoced
	// calls, abstractions that fired) is compared with the committed list. A new one
	// means the functions now rest on something that was not part of the claim -- e.g.
	// a call to a function without a contract appeared -- and is reported, not passed.
	curAssumed := map[string]bool{}
	for _, r := range results {
		for _, a := range r.Assumed {
			curAssumed[r.Key+" :: "+a] = true
		}
	}
	if gdata, err := os.ReadFile(filepath.Join(verifRoot, "golden", id+".assumptions")); err == nil && !update && only == "" {
		known := map[string]bool{}
		for _, ln := range strings.Split(string(gdata), "\n") {
			if ln = strings.TrimSpace(ln); ln != "" {
				known[ln] = true
			}
		}
		var news []string
		for a := range curAssumed {
			if !known[a] {
				news = append(news, a)
			}
		}
		sort.Strings(news)
		for _, a := range news {
			fn := strings.SplitN(a, " :: ", 2)[0]
			if funcFails[fn] || failedFn[fn] != "" {
				continue // already reported through its obligations
			}
			inGolden := false
			for g := range golden {
				if strings.HasPrefix(g, fn+"/") {
					inGolden = true
					break
				}
			}
			if !inGolden {
				continue // a function that is not part of the committed claim yet
			}
			viols = append(viols, viol{Obligation: fn + "/assumption", Reason: "new-assumption",
				Detail: "the check of this function now relies on an assumption that is not in the committed list: " + a})
		}
	}
	if update {
		// never commit a golden list while a function under contract does not generate:
		// its obligations would silently drop out of the claim
		for _, r := range results {
			if r.Err != nil {
				fmt.Printf("golden list for %s NOT updated: %v\n", id, r.Err)
				update = false
			}
		}
	}
	if update {
		var as []string
		for a := range curAssumed {
			as = append(as, a)
		}
		sort.Strings(as)
		os.MkdirAll(filepath.Join(verifRoot, "golden"), 0o755)
		os.WriteFile(filepath.Join(verifRoot, "golden", id+".assumptions"), []byte(strings.Join(as, "\n")+"\n"), 0o644)
	}
	if update {
		os.MkdirAll(filepath.Join(verifRoot, "golden"), 0o755)
		sort.Strings(goodNames)
		os.WriteFile(filepath.Join(verifRoot, "golden", id+".obligations"), []byte(strings.Join(goodNames, "\n")+"\n"), 0o644)
		fmt.Printf("golden list for %s updated: %d obligations\n", id, len(goodNames))
	}

	// replay counterexamples on the real code
	exit := 0
	replayDir := filepath.Join(verifRoot, "replays", id)
	if scratch {
		replayDir = filepath.Join(os.TempDir(), "govc-scratch-replays", id)
	}
	if len(viols) > 0 {
		os.MkdirAll(replayDir, 0o755)
	}
	replayAttempts := 0
	replayedFn := map[string]bool{}
	for i := range viols {
		v := &viols[i]
		o := generated[v.Obligation]
		suffix := " no-failing-input-found"
		if o != nil {
			v.Query = dumpQuery(filepath.Join(replayDir, "queries"), o)
			v.Kind = o.Kind
			if (o.Result == "sat" || o.Result == "unknown" || o.Result == "timeout") && (o.Kind == "post" || o.Safety) &&
				replayAttempts < 4 && !replayedFn[o.Func] {
				rr := TryReplay(P, db, id, o)
				v.Replay = rr
				if rr != nil && rr.Attempted {
					replayAttempts++
				}
				if rr != nil && rr.Reproduced {
					suffix = ""
					replayedFn[o.Func] = true
				}
			}
		}
		path := filepath.Join(replayDir, sanitize(v.Obligation)+".json")
		data, _ := json.MarshalIndent(map[string]interface{}{"property": id, "violation": v, "tier": tier}, "", " ")
		os.WriteFile(path, data, 0o644)
		fmt.Printf("VIOLATION property=%s replay=%s obligation=%s reason=%s%s\n", id, path, v.Obligation, v.Reason, suffix)
		exit = 1
	}
	for _, k := range known {
		fmt.Println(k)
	}
	for _, te := range toolErrs {
		fmt.Fprintln(os.Stderr, "generator:", te)
	}
	if verbose {
		for _, o := range all {
			fmt.Printf("  %-8s %-7s %6.2fs %7dB %s\n", o.Result, o.Backend, o.TimeS, o.Size, o.Name)
		}
	}

	// evidence
	var fnNames []string
	trusted := map[string]bool{}
	partial := []string{}
	for _, r := range results {
		fnNames = append(fnNames, fmt.Sprintf("%s (mode %s, %d obligations)", r.Key, r.Mode, len(r.Obls)))
		for _, a := range r.Assumed {
			trusted[a] = true
		}
		if r.Partial && r.LoopCount > 0 {
			partial = append(partial, r.Key)
		}
		if r.NoSafety {
			trusted["implicit-panic obligations not generated for "+r.Key+" (nosafety)"] = true
		}
		if r.Trusted {
			trusted["trusted contract (body not verified): "+r.Key] = true
		}
	}
	for _, t := range cfg.ExtraTrust {
		trusted[t] = true
	}
	base := []string{
		"go/types + go/ssa (x/tools v0.41.0) as the front end; govc's SSA->SMT translation (sequential semantics, per-field/per-element heap model, copy/append/range semantics)",
		"SMT solvers z3 4.8.12, z3-new 5.1.0, cvc5 1.0.3: an unsat answer from one is accepted (thorough: no other may answer sat)",
		"slice lengths and capacities are at most 2^48 (Go runtime maxAlloc on 64-bit)",
	}
	var tb []string
	for t := range trusted {
		tb = append(tb, t)
	}
	sort.Strings(tb)
	tb = append(base, tb...)
	var samples []map[string]interface{}
	for i, o := range all {
		if i%((len(all)/6)+1) == 0 && !o.Cover && !o.MustFail {
			samples = append(samples, map[string]interface{}{"obligation": o.Name, "kind": o.Kind, "detail": o.Detail, "pos": o.Pos,
				"result": o.Result, "backend": o.Backend, "time_s": round3(o.TimeS), "query_bytes": o.Size})
		}
	}
	if len(samples) == 0 {
		samples = append(samples, map[string]interface{}{"note": "no obligations generated"})
	}
	assumptions := append([]string{}, tb...)
	for _, r := range cfg.Residual {
		assumptions = append(assumptions, "NOT DECIDED: "+r)
	}
	if len(partial) > 0 {
		assumptions = append(assumptions, "partial correctness only (no decreases clause on every loop) for: "+strings.Join(partial, ", "))
	}
	ev := map[string]interface{}{
		"property_id": id,
		"tier":        tier,
		"seed":        seed,
		"level":       "proof",
		"coverage": map[string]interface{}{
			"obligations":              total,
			"discharged":               discharged,
			"checker_cmd":              "bin/govc check " + id + " --tier " + tier,
			"trusted_base":             tb,
			"functions_under_contract": fnNames,
			"by_backend":               byBackend,
			"solver_time_s":            round3(solverTime),
			"cover_checks":             covers,
			"must_fail_canaries":       canaries,
			"known_findings":           known,
			"bounded_standins":         cfg.Bounded,
			"generator_errors":         toolErrs,
			"golden_obligations":       len(golden),
			"golden_safety_obligations_superseded": safetyRenamed,
			"samples":                  samples,
		},
		"assumptions": assumptions,
		"wall_s":      round3(time.Since(t0).Seconds()),
		"violations":  len(viols),
	}
	if !scratch {
		os.MkdirAll(filepath.Join(verifRoot, "evidence"), 0o755)
		data, _ := json.MarshalIndent(ev, "", " ")
		os.WriteFile(filepath.Join(verifRoot, "evidence", id+".json"), data, 0o644)
	}
	fmt.Printf("property %s: %d/%d obligations discharged, %d functions/lemmas, %d cover, %d canaries, %d violations, %d known findings, %.1fs\n",
		id, discharged, total, len(results), covers, canaries, len(viols), len(known), time.Since(t0).Seconds())
	if exit == 0 && len(toolErrs) > 0 && len(golden) == 0 {
		return 2
	}
	return exit
}

// isSafetyName reports whether an obligation name (the part after the function key)
// is an implicit safety obligation derived from a code expression.
func isSafetyName(rest string) bool {
	rest = strings.TrimPrefix(rest, "/")
	for _, p := range []string{"nil[", "bounds[", "slice[", "ovf[", "makeslice[", "nilmap[", "div", "shift", "lock-read[", "lock-write[", "conv[", "assert", "panic[",
		// a frame obligation exists per heap the code writes: a heap that is no longer
		// written at all has nothing left to prove
		"frame#", "lframe#"} {
		if strings.HasPrefix(rest, p) {
			return true
		}
	}
	return false
}

func round3(f float64) float64 { return float64(int(f*1000)) / 1000 }

func hasProp(ps []string, id string) bool {
	for _, p := range ps {
		if p == id {
			return true
		}
	}
	return false
}
