package main

import (
	"fmt"
	"go/types"
	"math/big"

	"golang.org/x/tools/go/ssa"
)

// Val is a symbolic Go value.
type Val struct {
	T     Term
	Typ   types.Type
	Addr  *Addr         // interior address (field of a struct value, slice element, global)
	Tuple []Val         // multi-value call result
	Fn    *ssa.Function // static function / closure body
	Bind  []Val         // closure free variables
	Const *big.Int      // untyped integer constant (spec evaluation only)
	IsNil bool          // untyped nil (spec evaluation only)
	Dyn   *Val          // for an interface value built in this function: the concrete value inside
}

const (
	akField  = iota // field cell of a struct behind a pointer
	akCell          // target of a pointer to a non-struct value
	akElem          // element of a slice backing array
	akGlobal        // package-level variable
	akGhost         // ghost field keyed by a reference
)

// Proj selects a component inside a root cell's value.
type Proj struct {
	IsField bool
	SSort   string
	Struct  *types.Struct
	Field   int
	Index   Term   // array index
	ElemS   string // array element sort
	T       types.Type
}

type Addr struct {
	Kind   int
	Ref    Term
	Idx    Term
	SSort  string
	Struct *types.Struct
	Field  int
	Global string
	RootT  types.Type
	Path   []Proj
	T      types.Type // type of the addressed value
}

func (a *Addr) extend(p Proj) *Addr {
	n := *a
	n.Path = append(append([]Proj{}, a.Path...), p)
	n.T = p.T
	return &n
}

// State is the symbolic machine state at one program point.
type State struct {
	Guard Term
	Heaps map[string]Term
	Alloc Term
}

func (s *State) clone() *State {
	n := &State{Guard: s.Guard, Alloc: s.Alloc, Heaps: make(map[string]Term, len(s.Heaps))}
	for k, v := range s.Heaps {
		n.Heaps[k] = v
	}
	return n
}

func asStruct(t types.Type) (*types.Struct, bool) {
	if isTime(t) {
		return nil, false
	}
	if tp, ok := t.(*types.TypeParam); ok {
		t = tp.Constraint()
	}
	u, ok := t.Underlying().(*types.Struct)
	return u, ok
}

func pointee(t types.Type) types.Type {
	if p, ok := t.Underlying().(*types.Pointer); ok {
		return p.Elem()
	}
	return nil
}

// heapGet returns the current value of a heap, registering it on first use.
func (x *Exec) heapGet(st *State, name, srt string) Term {
	if h, ok := st.Heaps[name]; ok {
		return h
	}
	x.S.Heap(name, srt)
	if !x.discover {
		// pass 2 knows every heap from pass 1
		panic(toolErr(fmt.Sprintf("heap %s not discovered in pass 1", name)))
	}
	// pass 1: materialise lazily with the entry symbol (havocs before first use are
	// not tracked in pass 1; its obligations are discarded)
	h := Term{name + "@0", srt}
	st.Heaps[name] = h
	return h
}

func (x *Exec) heapSet(st *State, name string, v Term) {
	if len(v.S) > 60 {
		v = x.define(name, v)
	}
	st.Heaps[name] = v
	x.noteWrite(name)
}

func (x *Exec) rootHeap(a *Addr) (name, srt, elemSort string) {
	switch a.Kind {
	case akField:
		name, srt = x.S.FieldHeap(a.SSort, a.Struct, a.Field)
		return name, srt, x.S.SortOf(a.Struct.Field(a.Field).Type())
	case akCell:
		es := x.S.SortOf(a.RootT)
		name, srt = x.S.CellHeapT(a.RootT)
		return name, srt, es
	case akElem:
		es := x.S.SortOf(a.RootT)
		name, srt = x.S.ElemHeapT(a.RootT)
		return name, srt, es
	case akGlobal:
		es := x.S.SortOf(a.RootT)
		name = "G$" + sanitize(a.Global)
		x.S.Heap(name, es)
		return name, es, es
	case akGhost:
		es := x.S.SortOf(a.RootT)
		name = "GH$" + sanitize(a.Global)
		srt = arraySort("Int", es)
		x.S.Heap(name, srt)
		return name, srt, es
	}
	panic("bad addr kind")
}

func (x *Exec) readRoot(st *State, a *Addr) Term {
	if a.Kind == akGlobal {
		if t, ok := x.sentinel(a); ok {
			return t
		}
	}
	name, srt, es := x.rootHeap(a)
	h := x.heapGet(st, name, srt)
	switch a.Kind {
	case akField, akCell, akGhost:
		return mkSelect(h, a.Ref, es)
	case akElem:
		inner := Term{app("select", h, a.Ref), arraySort(x.S.Idx(), es)}
		return mkSelect(inner, a.Idx, es)
	default:
		return h
	}
}

func (x *Exec) writeRoot(st *State, a *Addr, v Term) {
	name, srt, es := x.rootHeap(a)
	h := x.heapGet(st, name, srt)
	switch a.Kind {
	case akField, akCell, akGhost:
		x.heapSet(st, name, mkStore(h, a.Ref, v))
	case akElem:
		asrt := arraySort(x.S.Idx(), es)
		inner := Term{app("select", h, a.Ref), asrt}
		if x.inQuant == 0 && !x.discover {
			// name both versions of the backing array and state read-over-write with a
			// trigger on the OLD array, so that facts known about elements of the old
			// version reach quantifiers that mention the new one (E-matching needs the
			// select terms to exist)
			inner = x.declareEq("arr", inner)
			ni := x.declareEq("arr", mkStore(inner, a.Idx, v))
			x.emit(fmt.Sprintf("(assert (forall ((q!w %s)) (! (= (select %s q!w) (ite (= q!w %s) %s (select %s q!w))) :pattern ((select %s q!w)))))",
				x.S.Idx(), ni.S, a.Idx.S, v.S, inner.S, inner.S))
			x.assume(mkEq(mkSelect(ni, a.Idx, es), v))
			x.heapSet(st, name, mkStore(h, a.Ref, ni))
			return
		}
		x.heapSet(st, name, mkStore(h, a.Ref, mkStore(inner, a.Idx, v)))
	default:
		x.heapSet(st, name, v)
	}
}

func (x *Exec) project(v Term, p Proj) Term {
	if p.IsField {
		return Term{app(x.S.FieldSel(p.SSort, p.Struct, p.Field), v), x.S.SortOf(p.Struct.Field(p.Field).Type())}
	}
	return mkSelect(v, p.Index, p.ElemS)
}

// updatePath returns root with the component at path replaced by v.
func (x *Exec) updatePath(root Term, path []Proj, v Term) Term {
	if len(path) == 0 {
		return v
	}
	p := path[0]
	inner := x.updatePath(x.project(root, p), path[1:], v)
	if p.IsField {
		var fs []Term
		for i := 0; i < p.Struct.NumFields(); i++ {
			if i == p.Field {
				fs = append(fs, inner)
			} else {
				fs = append(fs, Term{app(x.S.FieldSel(p.SSort, p.Struct, i), root), x.S.SortOf(p.Struct.Field(i).Type())})
			}
		}
		return x.S.MkStruct(p.SSort, fs)
	}
	return mkStore(root, p.Index, inner)
}

// loadAddr reads the value at an interior address.
func (x *Exec) loadAddr(st *State, a *Addr) Term {
	v := x.readRoot(st, a)
	for _, p := range a.Path {
		v = x.project(v, p)
	}
	return v
}

func (x *Exec) storeAddr(st *State, a *Addr, v Term) {
	if len(a.Path) == 0 {
		x.writeRoot(st, a, v)
		return
	}
	root := x.readRoot(st, a)
	x.writeRoot(st, a, x.updatePath(root, a.Path, v))
}

// loadPtr reads *p for a pointer value p (either a plain reference or an
// interior address) whose pointee has type t.
func (x *Exec) loadPtr(st *State, p Val, t types.Type) Term {
	if p.Addr != nil {
		return x.loadAddr(st, p.Addr)
	}
	if su, ok := asStruct(t); ok {
		ss := x.S.SortOf(t)
		var fs []Term
		for i := 0; i < su.NumFields(); i++ {
			a := &Addr{Kind: akField, Ref: p.T, SSort: ss, Struct: su, Field: i, RootT: su.Field(i).Type(), T: su.Field(i).Type()}
			fs = append(fs, x.readRoot(st, a))
		}
		return x.S.MkStruct(ss, fs)
	}
	a := &Addr{Kind: akCell, Ref: p.T, RootT: t, T: t}
	return x.readRoot(st, a)
}

func (x *Exec) storePtr(st *State, p Val, t types.Type, v Term) {
	if p.Addr != nil {
		x.storeAddr(st, p.Addr, v)
		return
	}
	if su, ok := asStruct(t); ok {
		ss := x.S.SortOf(t)
		if len(v.S) > 40 {
			v = x.define("sv", v)
		}
		for i := 0; i < su.NumFields(); i++ {
			a := &Addr{Kind: akField, Ref: p.T, SSort: ss, Struct: su, Field: i, RootT: su.Field(i).Type(), T: su.Field(i).Type()}
			fv := Term{app(x.S.FieldSel(ss, su, i), v), x.S.SortOf(su.Field(i).Type())}
			x.writeRoot(st, a, fv)
		}
		return
	}
	a := &Addr{Kind: akCell, Ref: p.T, RootT: t, T: t}
	x.writeRoot(st, a, v)
}

// fieldAddr computes &p.f.
func (x *Exec) fieldAddr(p Val, structT types.Type, field int) *Addr {
	su, ok := asStruct(structT)
	if !ok {
		panic(toolErr("FieldAddr on non-struct " + structT.String()))
	}
	ss := x.S.SortOf(structT)
	ft := su.Field(field).Type()
	if p.Addr != nil {
		return p.Addr.extend(Proj{IsField: true, SSort: ss, Struct: su, Field: field, T: ft})
	}
	return &Addr{Kind: akField, Ref: p.T, SSort: ss, Struct: su, Field: field, RootT: ft, T: ft}
}

// zeroOf is the zero value of a Go type.
func (x *Exec) zeroOf(t types.Type) Term {
	if isTime(t) {
		return intLit(0)
	}
	if el, ok := isSetType(t); ok {
		srt := arraySort(x.S.SortOf(el), "Bool")
		return Term{"((as const " + srt + ") false)", srt}
	}
	switch u := t.Underlying().(type) {
	case *types.Basic:
		switch {
		case u.Info()&types.IsBoolean != 0:
			return tFalse
		case u.Info()&types.IsInteger != 0:
			return x.intConst(big.NewInt(0), t)
		case u.Info()&types.IsString != 0:
			return x.S.StrConst("")
		case u.Info()&types.IsFloat != 0:
			if u.Kind() == types.Float32 {
				return Term{"(_ +zero 8 24)", "Float32"}
			}
			return Term{"(_ +zero 11 53)", "Float64"}
		}
		return intLit(0)
	case *types.Slice:
		z := x.S.IdxLit(0)
		return Term{app("mk_slice", intLit(0), z, z, z), "Slice"}
	case *types.Interface:
		return Term{"(mk_iface 0 0)", "Iface"}
	case *types.Struct:
		ss := x.S.SortOf(t)
		var fs []Term
		for i := 0; i < u.NumFields(); i++ {
			fs = append(fs, x.zeroOf(u.Field(i).Type()))
		}
		return x.S.MkStruct(ss, fs)
	case *types.Array:
		es := x.S.SortOf(u.Elem())
		srt := arraySort(x.S.Idx(), es)
		return Term{fmt.Sprintf("((as const %s) %s)", srt, x.zeroOf(u.Elem()).S), srt}
	}
	return intLit(0)
}

func (x *Exec) intConst(n *big.Int, t types.Type) Term {
	if x.mode == ModeBV {
		if b, ok := t.Underlying().(*types.Basic); ok {
			w, _ := intWidth(b)
			if w == 0 {
				w = 64
			}
			return bvLit(n, w)
		}
		return bvLit(n, 64)
	}
	return bigLit(n)
}

var (
	pow2_48 = new(big.Int).Lsh(big.NewInt(1), 48)
)

func intRange(b *types.Basic) (lo, hi *big.Int) {
	w, signed := intWidth(b)
	if w == 0 {
		return nil, nil
	}
	if signed {
		hi = new(big.Int).Sub(new(big.Int).Lsh(big.NewInt(1), uint(w-1)), big.NewInt(1))
		lo = new(big.Int).Neg(new(big.Int).Lsh(big.NewInt(1), uint(w-1)))
		return
	}
	return big.NewInt(0), new(big.Int).Sub(new(big.Int).Lsh(big.NewInt(1), uint(w)), big.NewInt(1))
}

// typeInv is the invariant every value of Go type t satisfies in the model
// (integer ranges in int mode, slice header sanity).
func (x *Exec) typeInv(v Term, t types.Type, depth int) Term {
	if isTime(t) {
		return tTrue
	}
	if _, ok := isSetType(t); ok {
		return tTrue
	}
	switch u := t.Underlying().(type) {
	case *types.Basic:
		if u.Info()&types.IsInteger != 0 && x.mode == ModeInt {
			lo, hi := intRange(u)
			if lo == nil {
				return tTrue
			}
			return Term{fmt.Sprintf("(and (<= %s %s) (<= %s %s))", bigLit(lo).S, v.S, v.S, bigLit(hi).S), "Bool"}
		}
		if u.Info()&types.IsString != 0 {
			return Term{fmt.Sprintf("(and (<= 0 (strlen %s)) (<= (strlen %s) %s))", v.S, v.S, pow2_48.String()), "Bool"}
		}
	case *types.Pointer, *types.Map, *types.Chan, *types.Signature:
		return Term{fmt.Sprintf("(>= %s 0)", v.S), "Bool"}
	case *types.Slice:
		ref, off, ln, cp := x.sliceParts(v)
		if x.mode == ModeBV {
			z := x.S.IdxLit(0)
			mx := bvLit(pow2_48, 64)
			return mkAnd(
				Term{app(">=", ref, intLit(0)), "Bool"},
				Term{app("bvsle", z, off), "Bool"}, Term{app("bvsle", off, mx), "Bool"},
				Term{app("bvsle", z, ln), "Bool"}, Term{app("bvsle", ln, cp), "Bool"}, Term{app("bvsle", cp, mx), "Bool"},
				mkImp(mkEq(ref, intLit(0)), mkEq(cp, z)))
		}
		mx := bigLit(pow2_48)
		return mkAnd(
			Term{app(">=", ref, intLit(0)), "Bool"},
			Term{app("<=", intLit(0), off), "Bool"}, Term{app("<=", off, mx), "Bool"},
			Term{app("<=", intLit(0), ln), "Bool"}, Term{app("<=", ln, cp), "Bool"}, Term{app("<=", cp, mx), "Bool"},
			mkImp(mkEq(ref, intLit(0)), mkEq(cp, intLit(0))))
	case *types.Struct:
		if depth > 3 {
			return tTrue
		}
		ss := x.S.SortOf(t)
		var cs []Term
		for i := 0; i < u.NumFields(); i++ {
			fv := Term{app(x.S.FieldSel(ss, u, i), v), x.S.SortOf(u.Field(i).Type())}
			cs = append(cs, x.typeInv(fv, u.Field(i).Type(), depth+1))
		}
		return mkAnd(cs...)
	}
	return tTrue
}

func (x *Exec) sliceParts(v Term) (ref, off, ln, cp Term) {
	ix := x.S.Idx()
	return Term{app("s_ref", v), "Int"}, Term{app("s_off", v), ix}, Term{app("s_len", v), ix}, Term{app("s_cap", v), ix}
}

// refsBelow says every reference inside v is at most the watermark.
func (x *Exec) refsBelow(v Term, t types.Type, wm Term, depth int) Term {
	if isTime(t) {
		return tTrue
	}
	if _, ok := isSetType(t); ok {
		return tTrue
	}
	switch u := t.Underlying().(type) {
	case *types.Pointer, *types.Map, *types.Chan:
		return Term{app("<=", v, wm), "Bool"}
	case *types.Slice:
		return Term{app("<=", Term{app("s_ref", v), "Int"}, wm), "Bool"}
	case *types.Struct:
		if depth > 3 {
			return tTrue
		}
		ss := x.S.SortOf(t)
		var cs []Term
		for i := 0; i < u.NumFields(); i++ {
			fv := Term{app(x.S.FieldSel(ss, u, i), v), x.S.SortOf(u.Field(i).Type())}
			cs = append(cs, x.refsBelow(fv, u.Field(i).Type(), wm, depth+1))
		}
		return mkAnd(cs...)
	}
	return tTrue
}
