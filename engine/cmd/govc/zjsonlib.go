package main

import (
	"go/types"

	"golang.org/x/tools/go/ssa"
)

// encoding/json.Unmarshal(data, v): when v is a pointer to a struct built in the
// calling function, exactly that struct's fields are overwritten with arbitrary
// well-typed values (references in them may be new allocations); nothing else in the
// modelled heaps changes. For any other shape of v every heap is havoced.
func jsonUnmarshal(x *Exec, fr *Frame, st *State, site ssa.Instruction, c *ssa.CallCommon, args []Val, rt types.Type) Val {
	done := false
	if len(args) == 2 && args[1].Dyn != nil {
		tv := *args[1].Dyn
		if pt := pointee(tv.Typ); pt != nil {
			if su, ok := asStruct(pt); ok {
				x.assumed["encoding/json.Unmarshal overwrites only the fields of the struct its second argument points to (UnmarshalJSON methods of field types are assumed not to touch other modelled state)"] = true
				na := x.declare("alloc@json", "Int")
				x.assume(Term{app(">=", na, st.Alloc), "Bool"})
				st.Alloc = na
				x.markAlloc()
				for i := 0; i < su.NumFields(); i++ {
					a := x.fieldAddr(tv, pt, i)
					nv := x.declare("json", x.S.SortOf(su.Field(i).Type()))
					x.assume(x.typeInv(nv, su.Field(i).Type(), 0))
					x.assume(x.refsBelow(nv, su.Field(i).Type(), st.Alloc, 0))
					x.storeAddr(st, a, nv)
				}
				done = true
			}
		}
	}
	if !done {
		x.assumed["encoding/json.Unmarshal into a value of unknown shape: every modelled heap havoced"] = true
		x.havocAll(st)
	}
	return x.freshResult(fr, st, "Unmarshal!r", rt)
}

func init() {
	libCalls["encoding/json.Unmarshal"] = jsonUnmarshal
}
