package main

import (
	"fmt"
	"go/types"

	"golang.org/x/tools/go/ssa"
)

// encoding/json.Unmarshal(data, v): when v is a pointer to a struct built in the
// calling function, exactly that struct's fields are overwritten with arbitrary
// well-typed values (references in them may be new allocations); nothing else in the
// modelled heaps changes. For any other shape of v every heap is havoced.
func jsonUnmarshal(x *Exec, fr *Frame, st *State, site ssa.Instruction, c *ssa.CallCommon, args []Val, rt types.Type) Val {
	done := false
	if len(args) == 2 && args[1].Dyn != nil {
		tv := *args[1].Dyn
		if pt := pointee(tv.Typ); pt != nil {
			if su, ok := asStruct(pt); ok {
				x.assumed["encoding/json.Unmarshal overwrites only the fields of the struct its second argument points to (UnmarshalJSON methods of field types are assumed not to touch other modelled state)"] = true
				na := x.declare("alloc@json", "Int")
				x.assume(Term{app(">=", na, st.Alloc), "Bool"})
				st.Alloc = na
				x.markAlloc()
				for i := 0; i < su.NumFields(); i++ {
					a := x.fieldAddr(tv, pt, i)
					nv := x.declare("json", x.S.SortOf(su.Field(i).Type()))
					x.assume(x.typeInv(nv, su.Field(i).Type(), 0))
					x.assume(x.refsBelow(nv, su.Field(i).Type(), st.Alloc, 0))
					x.storeAddr(st, a, nv)
				}
				done = true
			}
		}
	}
	if !done {
		x.assumed["encoding/json.Unmarshal into a value of unknown shape: every modelled heap havoced"] = true
		x.havocAll(st)
	}
	return x.freshResult(fr, st, "Unmarshal!r", rt)
}

// errors.Join(errs...): nil exactly when every element is nil (or there is none);
// otherwise a fresh non-nil error. Touches nothing.
func errorsJoin(x *Exec, fr *Frame, st *State, site ssa.Instruction, c *ssa.CallCommon, args []Val, rt types.Type) Val {
	x.assumed["errors.Join returns nil exactly when all its arguments are nil, and is pure w.r.t. the modelled heaps"] = true
	r := x.freshResult(fr, st, "join", rt)
	if len(args) != 1 || args[0].T.Sort != "Slice" {
		return r
	}
	sl, ok := args[0].Typ.Underlying().(*types.Slice)
	if !ok {
		return r
	}
	hn, hs := x.S.ElemHeapT(sl.Elem())
	h := x.heapGet(st, hn, hs)
	ref, off, ln, _ := x.sliceParts(args[0].T)
	inner := Term{app("select", h, ref), arraySort(x.S.Idx(), "Iface")}
	k := Term{"k!join", x.S.Idx()}
	elemNil := mkEq(Term{app("i_typ", mkSelect(inner, x.iAdd(off, k), "Iface")), "Int"}, intLit(0))
	inRange := mkAnd(x.iLe(x.S.IdxLit(0), k), x.iLt(k, ln))
	allNil := Term{fmt.Sprintf("(forall ((k!join %s)) (=> %s %s))", x.S.Idx(), inRange.S, elemNil.S), "Bool"}
	resNil := mkEq(Term{app("i_typ", r.T), "Int"}, intLit(0))
	x.assumeUnder(st.Guard, mkEq(resNil, allNil))
	return r
}

func init() {
	libCalls["encoding/json.Unmarshal"] = jsonUnmarshal
	libCalls["errors.Join"] = errorsJoin
}

// ---------- goroutines and channels (abstraction) ----------

func (x *Exec) chanAssumption() {
	x.assumed["goroutines/channels abstracted: a goroutine runs to completion where it is spawned (one schedule), sends are dropped, every receive/select yields an arbitrary value and an arbitrary ready case"] = true
}

// selectInstr: the chosen case is arbitrary (any case for a blocking select, possibly
// none for one with a default), received values are arbitrary.
func (x *Exec) selectInstr(fr *Frame, st *State, v *ssa.Select) {
	res := x.freshVal(fr.prefix+"sel", v.Type(), st)
	if len(res.Tuple) > 0 {
		idx := res.Tuple[0].T
		lo := int64(0)
		if !v.Blocking {
			lo = -1
		}
		x.assumeUnder(st.Guard, mkAnd(x.iLe(x.S.IdxLit(lo), idx), x.iLt(idx, x.S.IdxLit(int64(len(v.States))))))
	}
	fr.vals[v] = res
}
