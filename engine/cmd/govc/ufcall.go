package main

import (
	"fmt"
	"go/types"
	"strings"
)

// ufCall models a call through a function-typed parameter as the application of
// an uninterpreted function to the argument values (slices by header value).
func (x *Exec) ufCall(param string, args []Val, sig *types.Signature, st *State) Val {
	x.assumed[fmt.Sprintf("function parameter %s is a pure function of its argument values (slice arguments by header, not content)", param)] = true
	var sorts []string
	var terms []Term
	for i, a := range args {
		t := a.T
		if a.Addr != nil || a.Tuple != nil {
			panic(toolErr("unsupported argument shape in call through function parameter " + param))
		}
		if t.S == "" {
			var pt types.Type = types.Typ[types.Int]
			if i < sig.Params().Len() {
				pt = sig.Params().At(i).Type()
			}
			t = x.zeroOf(pt)
		}
		sorts = append(sorts, t.Sort)
		terms = append(terms, t)
	}
	rs := sig.Results()
	var outs []Val
	for k := 0; k < rs.Len(); k++ {
		rt := rs.At(k).Type()
		name := fmt.Sprintf("fn$%s$%d", sanitize(param), k)
		x.declUF(name, fmt.Sprintf("(%s) %s", strings.Join(sorts, " "), x.S.SortOf(rt)))
		var r Term
		if len(terms) == 0 {
			r = Term{name, x.S.SortOf(rt)} // a nullary function symbol is written bare
		} else {
			r = Term{app(name, terms...), x.S.SortOf(rt)}
		}
		if x.inQuant == 0 {
			x.assume(x.typeInv(r, rt, 0))
			if st != nil {
				// the callee may have allocated what it returns: the watermark moves
				if rb := x.refsBelow(r, rt, st.Alloc, 0); rb.S != "true" {
					na := x.declare("alloc@u", "Int")
					x.assume(Term{app(">=", na, st.Alloc), "Bool"})
					st.Alloc = na
					x.markAlloc()
					x.assume(x.refsBelow(r, rt, na, 0))
				}
			}
		}
		outs = append(outs, Val{T: r, Typ: rt})
	}
	if rs.Len() == 0 {
		return Val{Typ: rs}
	}
	if rs.Len() == 1 {
		return outs[0]
	}
	return Val{Tuple: outs, Typ: rs}
}

// sigParams lists the parameter names and types of a function as the SSA call
// passes them (receiver first), from its signature, so that functions without
// bodies (outside the module) can carry assumed contracts too.
func sigParams(fn interface {
	Name() string
}) ([]string, []types.Type) {
	type sigger interface{ Type() types.Type }
	var sig *types.Signature
	if s, ok := fn.(sigger); ok {
		sig, _ = s.Type().(*types.Signature)
	}
	if sig == nil {
		return nil, nil
	}
	var names []string
	var tys []types.Type
	if r := sig.Recv(); r != nil {
		n := r.Name()
		if n == "" || n == "_" {
			n = "recv"
		}
		names = append(names, n)
		tys = append(tys, r.Type())
	}
	for i := 0; i < sig.Params().Len(); i++ {
		p := sig.Params().At(i)
		n := p.Name()
		if n == "" || n == "_" {
			n = fmt.Sprintf("p%d", i)
		}
		names = append(names, n)
		tys = append(tys, p.Type())
	}
	return names, tys
}

// ifaceUF applies the uninterpreted function that stands for a pure interface
// method (receiver first).
func (x *Exec) ifaceUF(is *IfaceSpec, ms *IfaceMethodSpec, recv Val, args []Val, sig *types.Signature, st *State) Val {
	all := append([]Val{recv}, args...)
	// contexts and other opaque arguments do not influence the abstract result:
	// keep only the receiver and arguments of basic type
	keep := []Val{recv}
	for i, a := range args {
		if i < sig.Params().Len() {
			if _, ok := sig.Params().At(i).Type().Underlying().(*types.Basic); ok {
				keep = append(keep, a)
			}
		}
	}
	_ = all
	return x.ufCall("im."+is.Name+"."+ms.Name, keep, sig, st)
}
