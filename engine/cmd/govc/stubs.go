package main

import (
	"os"
	"strings"
)

// ReplayResult records the outcome of running a solver model against the real code.
type ReplayResult struct {
	Attempted  bool     `json:"attempted"`
	Reproduced bool     `json:"reproduced"`
	Inputs     []string `json:"inputs,omitempty"`
	Output     string   `json:"output,omitempty"`
	Note       string   `json:"note,omitempty"`
	TestFile   string   `json:"test_file,omitempty"`
	Cmd        string   `json:"cmd,omitempty"`
}

func cmdReplay(args []string) int { return 2 }

func TryReplay(P *Program, db *SpecDB, id string, o *Obligation) *ReplayResult {
	return &ReplayResult{Attempted: false, Note: "replay generator not available for this obligation kind"}
}

var srcCache = map[string][]string{}

func (P *Program) sourceLines(file string) []string {
	if l, ok := srcCache[file]; ok {
		return l
	}
	data, err := os.ReadFile(file)
	if err != nil {
		srcCache[file] = nil
		return nil
	}
	l := strings.Split(string(data), "\n")
	srcCache[file] = l
	return l
}
