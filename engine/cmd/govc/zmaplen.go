package main

import (
	"fmt"
	"go/types"
)

// mapLen is len(m) for a Go map: the cardinality of the map's CURRENT key set (an
// uninterpreted function of the domain array, 0 for the empty domain and for the nil
// map). An earlier version made it a function of the map reference alone, which would
// have let len(m) survive an insert unchanged.
func (x *Exec) mapLen(st *State, m Term, mt *types.Map) Term {
	dn, ds, _, _ := x.mapHeaps(mt)
	d := x.heapGet(st, dn, ds)
	ks := x.S.SortOf(mt.Key())
	dsort := arraySort(ks, "Bool")
	dom := Term{app("select", d, m), dsort}
	uf := "mapcard$" + sortTag(ks)
	first := !x.ufDecl[uf]
	x.declUF(uf, "("+dsort+") Int")
	if first {
		x.S.decls = append(x.S.decls, fmt.Sprintf("(assert (= (%s ((as const %s) false)) 0))", uf, dsort))
	}
	r := x.define("maplen", Term{app(uf, dom), "Int"})
	x.assume(Term{app(">=", r, intLit(0)), "Bool"})
	return mkIte(mkEq(m, intLit(0)), intLit(0), r)
}
