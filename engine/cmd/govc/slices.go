package main

import (
	"fmt"
	"strings"
	"go/token"
	"go/types"
	"math/big"

	"golang.org/x/tools/go/ssa"
)

// index arithmetic helpers working in either mode (operands of sort Idx)

func (x *Exec) iAdd(a, b Term) Term {
	// off + (p - off) == p (shifted bound variables, see evalQuant)
	if b.S == "(- "+a.S+")" {
		return x.S.IdxLit(0)
	}
	if strings.HasSuffix(b.S, " "+a.S+")") && (strings.HasPrefix(b.S, "(- ") || strings.HasPrefix(b.S, "(bvsub ")) {
		inner := strings.TrimSuffix(strings.TrimPrefix(strings.TrimPrefix(b.S, "(- "), "(bvsub "), " "+a.S+")")
		if !strings.ContainsAny(inner, " ()") {
			return Term{inner, a.Sort}
		}
	}
	if x.mode == ModeBV {
		return Term{app("bvadd", a, b), a.Sort}
	}
	if b.S == "0" {
		return a
	}
	if a.S == "0" {
		return b
	}
	return Term{app("+", a, b), "Int"}
}

func (x *Exec) iSub(a, b Term) Term {
	if x.mode == ModeBV {
		return Term{app("bvsub", a, b), a.Sort}
	}
	if b.S == "0" {
		return a
	}
	return Term{app("-", a, b), "Int"}
}

func (x *Exec) iLe(a, b Term) Term {
	if x.mode == ModeBV {
		return Term{app("bvsle", a, b), "Bool"}
	}
	return Term{app("<=", a, b), "Bool"}
}

func (x *Exec) iLt(a, b Term) Term {
	if x.mode == ModeBV {
		return Term{app("bvslt", a, b), "Bool"}
	}
	return Term{app("<", a, b), "Bool"}
}

// toIdx converts an integer value of Go type t to the index sort.
func (x *Exec) toIdx(a Term, t types.Type) Term {
	if x.mode != ModeBV {
		return a
	}
	b, ok := t.Underlying().(*types.Basic)
	if !ok {
		return a
	}
	w, signed := intWidth(b)
	if w == 64 || w == 0 {
		return a
	}
	if signed {
		return Term{fmt.Sprintf("((_ sign_extend %d) %s)", 64-w, a.S), bvSort(64)}
	}
	return Term{fmt.Sprintf("((_ zero_extend %d) %s)", 64-w, a.S), bvSort(64)}
}

func (x *Exec) inBounds(i, n Term, t types.Type) Term {
	// unsigned index types cannot be negative; in bv mode a uint64 index >= 2^63
	// is read as negative by the signed comparison, which rejects it as Go does.
	return mkAnd(x.iLe(x.S.IdxLit(0), i), x.iLt(i, n))
}

func (x *Exec) elemAddr(sl Term, i Term, elemT types.Type) *Addr {
	ref, off, _, _ := x.sliceParts(sl)
	if x.idxUses != nil {
		if m, ok := x.idxUses[i.S]; ok {
			m[off.S] = true
		}
	}
	return &Addr{Kind: akElem, Ref: ref, Idx: x.iAdd(off, i), RootT: elemT, T: elemT}
}

func (x *Exec) indexAddr(fr *Frame, st *State, v *ssa.IndexAddr) {
	base := x.val(fr, v.X)
	i := x.toIdx(x.val(fr, v.Index).T, v.Index.Type())
	switch u := v.X.Type().Underlying().(type) {
	case *types.Slice:
		_, _, ln, _ := x.sliceParts(base.T)
		name := x.safetyName("bounds", fr, v, x.exprText(v.Pos(), v.String()))
		x.oblige("bounds", name, st.Guard, x.inBounds(i, ln, v.Index.Type()), "index out of range: "+v.String(), v.Pos(), true)
		x.setVal(fr, v, Val{Addr: x.elemAddr(base.T, i, u.Elem()), Typ: v.Type()})
	case *types.Pointer:
		arr := u.Elem().Underlying().(*types.Array)
		x.checkNil(fr, st, base, v, v.Pos())
		if _, lit := termIsLit(i); !lit || true {
			name := x.safetyName("bounds", fr, v, x.exprText(v.Pos(), v.String()))
			x.oblige("bounds", name, st.Guard, x.inBounds(i, x.S.IdxLit(arr.Len()), v.Index.Type()), "array index out of range: "+v.String(), v.Pos(), true)
		}
		es := x.S.SortOf(arr.Elem())
		var a *Addr
		if base.Addr != nil {
			a = base.Addr
		} else {
			a = &Addr{Kind: akCell, Ref: base.T, RootT: u.Elem(), T: u.Elem()}
		}
		x.setVal(fr, v, Val{Addr: a.extend(Proj{Index: i, ElemS: es, T: arr.Elem()}), Typ: v.Type()})
	default:
		panic(toolErr("IndexAddr on " + v.X.Type().String()))
	}
}

func (x *Exec) index(fr *Frame, st *State, v *ssa.Index) {
	base := x.val(fr, v.X)
	i := x.toIdx(x.val(fr, v.Index).T, v.Index.Type())
	switch u := v.X.Type().Underlying().(type) {
	case *types.Array:
		name := x.safetyName("bounds", fr, v, x.exprText(v.Pos(), v.String()))
		x.oblige("bounds", name, st.Guard, x.inBounds(i, x.S.IdxLit(u.Len()), v.Index.Type()), "array index out of range: "+v.String(), v.Pos(), true)
		x.setVal(fr, v, Val{T: mkSelect(base.T, i, x.S.SortOf(u.Elem())), Typ: v.Type()})
	case *types.Basic: // string
		x.strAt()
		ln := x.intToIdx(Term{app("strlen", base.T), "Int"})
		name := x.safetyName("bounds", fr, v, x.exprText(v.Pos(), v.String()))
		x.oblige("bounds", name, st.Guard, x.inBounds(i, ln, v.Index.Type()), "string index out of range: "+v.String(), v.Pos(), true)
		r := Term{app("strat", base.T, x.idxToInt(i)), "Int"}
		if x.mode == ModeBV {
			r = Term{fmt.Sprintf("((_ int2bv 8) %s)", r.S), bvSort(8)}
		} else {
			x.assume(Term{fmt.Sprintf("(and (<= 0 %s) (<= %s 255))", r.S, r.S), "Bool"})
		}
		x.setVal(fr, v, Val{T: r, Typ: v.Type()})
	default:
		panic(toolErr("Index on " + v.X.Type().String()))
	}
}

func (x *Exec) strAt() {
	x.declUF("strat", "(Str Int) Int")
}

func (x *Exec) sliceOp(fr *Frame, st *State, v *ssa.Slice) {
	base := x.val(fr, v.X)
	z := x.S.IdxLit(0)
	get := func(e ssa.Value, def Term) Term {
		if e == nil {
			return def
		}
		return x.toIdx(x.val(fr, e).T, e.Type())
	}
	switch u := v.X.Type().Underlying().(type) {
	case *types.Slice:
		ref, off, ln, cp := x.sliceParts(base.T)
		lo := get(v.Low, z)
		hi := get(v.High, ln)
		mx := get(v.Max, cp)
		name := x.safetyName("slice", fr, v, x.exprText(v.Pos(), v.String()))
		x.oblige("slice", name, st.Guard, mkAnd(x.iLe(z, lo), x.iLe(lo, hi), x.iLe(hi, mx), x.iLe(mx, cp)), "slice bounds out of range: "+v.String(), v.Pos(), true)
		r := Term{app("mk_slice", ref, x.iAdd(off, lo), x.iSub(hi, lo), x.iSub(mx, lo)), "Slice"}
		x.setVal(fr, v, Val{T: r, Typ: v.Type()})
	case *types.Basic: // string
		x.declUF("substr", "(Str Int Int) Str")
		ln := x.intToIdx(Term{app("strlen", base.T), "Int"})
		lo := get(v.Low, z)
		hi := get(v.High, ln)
		name := x.safetyName("slice", fr, v, x.exprText(v.Pos(), v.String()))
		x.oblige("slice", name, st.Guard, mkAnd(x.iLe(z, lo), x.iLe(lo, hi), x.iLe(hi, ln)), "string slice bounds out of range: "+v.String(), v.Pos(), true)
		r := Term{app("substr", base.T, x.idxToInt(lo), x.idxToInt(hi)), "Str"}
		x.assumeUnder(st.Guard, mkEq(Term{app("strlen", r), "Int"}, x.idxToInt(x.iSub(hi, lo))))
		x.setVal(fr, v, Val{T: r, Typ: v.Type()})
	case *types.Pointer: // *[N]T -> []T
		arr := u.Elem().Underlying().(*types.Array)
		n := x.S.IdxLit(arr.Len())
		lo := get(v.Low, z)
		hi := get(v.High, n)
		name := x.safetyName("slice", fr, v, x.exprText(v.Pos(), v.String()))
		x.oblige("slice", name, st.Guard, mkAnd(x.iLe(z, lo), x.iLe(lo, hi), x.iLe(hi, n)), "slice bounds out of range: "+v.String(), v.Pos(), true)
		// the array cell becomes a backing array: copy it into the element heap at the same reference
		if base.Addr != nil {
			panic(toolErr("slicing an array that is a struct field/element is not modelled"))
		}
		es := x.S.SortOf(arr.Elem())
		cur := x.loadPtr(st, base, u.Elem())
		_ = es
		hn, hs := x.S.ElemHeapT(arr.Elem())
		h := x.heapGet(st, hn, hs)
		x.heapSet(st, hn, mkStore(h, base.T, cur))
		x.assumed["array sliced: the array cell is snapshotted into the slice heap (later writes through the array variable are not seen through the slice)"] = true
		r := Term{app("mk_slice", base.T, lo, x.iSub(hi, lo), x.iSub(n, lo)), "Slice"}
		x.setVal(fr, v, Val{T: r, Typ: v.Type()})
	default:
		panic(toolErr("Slice on " + v.X.Type().String()))
	}
}

func (x *Exec) makeSlice(fr *Frame, st *State, v *ssa.MakeSlice) {
	ln := x.toIdx(x.val(fr, v.Len).T, v.Len.Type())
	cp := x.toIdx(x.val(fr, v.Cap).T, v.Cap.Type())
	z := x.S.IdxLit(0)
	name := x.safetyName("makeslice", fr, v, x.exprText(v.Pos(), v.String()))
	x.oblige("slice", name, st.Guard, mkAnd(x.iLe(z, ln), x.iLe(ln, cp)), "makeslice: len out of range: "+v.String(), v.Pos(), true)
	// allocation size limit (the runtime panics above maxAlloc); assumed not hit
	if x.mode == ModeBV {
		x.assumeUnder(st.Guard, x.iLe(cp, bvLit(pow2_48, 64)))
	} else {
		x.assumeUnder(st.Guard, x.iLe(cp, bigLit(pow2_48)))
	}
	r := x.newSlice(st, v.Type().Underlying().(*types.Slice).Elem(), ln, cp, true)
	x.setVal(fr, v, Val{T: r, Typ: v.Type()})
}

// newSlice allocates a fresh backing array.
func (x *Exec) newSlice(st *State, elemT types.Type, ln, cp Term, zeroed bool) Term {
	ref := x.define("new", Term{app("+", st.Alloc, intLit(1)), "Int"})
	st.Alloc = ref
	x.markAlloc()
	es := x.S.SortOf(elemT)
	hn, hs := x.S.ElemHeapT(elemT)
	h := x.heapGet(st, hn, hs)
	asrt := arraySort(x.S.Idx(), es)
	if zeroed {
		x.heapSet(st, hn, mkStore(h, ref, Term{fmt.Sprintf("((as const %s) %s)", asrt, x.zeroOf(elemT).S), asrt}))
	} else {
		x.heapSet(st, hn, mkStore(h, ref, x.declare("arr", asrt)))
	}
	return Term{app("mk_slice", ref, x.S.IdxLit(0), ln, cp), "Slice"}
}

// builtinAppend models append(s, elems...) for the SSA form append(s, t) where t
// is a slice.
func (x *Exec) builtinAppend(fr *Frame, st *State, v *ssa.Call) {
	args := v.Call.Args
	s := x.val(fr, args[0]).T
	sl, ok := v.Type().Underlying().(*types.Slice)
	if !ok {
		panic(toolErr("append result is not a slice"))
	}
	elemT := sl.Elem()
	es := x.S.SortOf(elemT)
	asrt := arraySort(x.S.Idx(), es)
	hn, hs := x.S.ElemHeapT(elemT)
	var tref, toff, tlen Term
	var tarr Term
	if isString(args[1].Type()) {
		// append([]byte, string...)
		str := x.val(fr, args[1]).T
		fn := "str2bytes$" + sortTag(es)
		x.declUF(fn, fmt.Sprintf("(Str) %s", asrt))
		tarr = Term{app(fn, str), asrt}
		toff = x.S.IdxLit(0)
		tlen = x.intToIdx(Term{app("strlen", str), "Int"})
	} else {
		t := x.val(fr, args[1]).T
		tref, toff, tlen, _ = x.sliceParts(t)
		h := x.heapGet(st, hn, hs)
		tarr = Term{app("select", h, tref), asrt}
	}
	sref, soff, slen, scap := x.sliceParts(s)
	newLen := x.defineIfBig("alen", x.iAdd(slen, tlen))
	fits := x.iLe(newLen, scap)
	// allocation: a fresh reference used only when it does not fit
	fresh := x.define("new", Term{app("+", st.Alloc, intLit(1)), "Int"})
	st.Alloc = fresh
	x.markAlloc()
	newCap := x.declare("acap", x.S.Idx())
	x.assume(x.iLe(newLen, newCap))
	if x.mode == ModeBV {
		x.assume(x.iLe(newCap, bvLit(pow2_48, 64)))
		x.assume(x.iLe(newLen, bvLit(pow2_48, 64)))
	} else {
		x.assume(x.iLe(newCap, bigLit(pow2_48)))
	}
	h := x.heapGet(st, hn, hs)
	sarr := x.declareEq("sarr", Term{app("select", h, sref), asrt})
	// result backing array: either s's array with t copied at soff+slen, or a fresh
	// array holding s[0:len] then t
	rarr := x.declare("aarr", asrt)
	// the old elements survive (stated with a trigger on the OLD array so that facts
	// about s's elements reach quantifiers over the result)
	{
		m := "m!a"
		mt := Term{m, x.S.Idx()}
		keep := fmt.Sprintf("(forall ((%s %s)) (! (=> (and %s %s) (= (select %s %s) (select %s %s))) :pattern ((select %s %s))))",
			m, x.S.Idx(), x.iLe(soff, mt).S, x.iLt(mt, x.iAdd(soff, slen)).S,
			rarr.S, mkIte(fits, mt, x.iSub(mt, soff)).S, sarr.S, m, sarr.S, m)
		x.assume(Term{keep, "Bool"})
	}
	k := "k!a"
	ksort := x.S.Idx()
	kt := Term{k, ksort}
	// in-place case
	inPlace := fmt.Sprintf("(forall ((%s %s)) (! (= (select %s %s) (ite (and %s %s) (select %s %s) (select %s %s))) :pattern ((select %s %s))))",
		k, ksort, rarr.S, k,
		x.iLe(x.iAdd(soff, slen), kt).S, x.iLt(kt, x.iAdd(soff, newLen)).S,
		tarr.S, x.iAdd(toff, x.iSub(kt, x.iAdd(soff, slen))).S,
		sarr.S, k, rarr.S, k)
	fresh_ := fmt.Sprintf("(forall ((%s %s)) (! (=> (and %s %s) (= (select %s %s) (ite %s (select %s %s) (select %s %s)))) :pattern ((select %s %s))))",
		k, ksort, x.iLe(x.S.IdxLit(0), kt).S, x.iLt(kt, newLen).S, rarr.S, k,
		x.iLt(kt, slen).S, sarr.S, x.iAdd(soff, kt).S, tarr.S, x.iAdd(toff, x.iSub(kt, slen)).S, rarr.S, k)
	x.assume(Term{fmt.Sprintf("(ite %s %s %s)", fits.S, inPlace, fresh_), "Bool"})
	// ground instance for the first appended element (append(s, x) is by far the
	// common case): gives E-matching the select term of the new slot
	{
		first := mkIte(fits, x.iAdd(soff, slen), slen)
		x.assume(mkImp(x.iLt(x.S.IdxLit(0), tlen), mkEq(mkSelect(rarr, first, es), mkSelect(tarr, toff, es))))
		// and the appended elements seen from the source side (trigger on the source array)
		tarrN := x.declareEq("tarr", tarr)
		m := "m!t"
		mt := Term{m, x.S.Idx()}
		x.assume(Term{fmt.Sprintf("(forall ((%s %s)) (! (=> (and %s %s) (= (select %s %s) (select %s %s))) :pattern ((select %s %s))))",
			m, x.S.Idx(), x.iLe(toff, mt).S, x.iLt(mt, x.iAdd(toff, tlen)).S,
			rarr.S, x.iAdd(first, x.iSub(mt, toff)).S, tarrN.S, m, tarrN.S, m), "Bool"})
	}
	rref := mkIte(fits, sref, fresh)
	x.heapSet(st, hn, mkStore(h, rref, rarr))
	res := Term{fmt.Sprintf("(ite %s (mk_slice %s %s %s %s) (mk_slice %s %s %s %s))", fits.S,
		sref.S, soff.S, newLen.S, scap.S, fresh.S, x.S.IdxLit(0).S, newLen.S, newCap.S), "Slice"}
	x.setVal(fr, v, Val{T: res, Typ: v.Type()})
}

// builtinCopy models copy(dst, src) as memmove.
func (x *Exec) builtinCopy(fr *Frame, st *State, v *ssa.Call) {
	args := v.Call.Args
	d := x.val(fr, args[0]).T
	sl := args[0].Type().Underlying().(*types.Slice)
	es := x.S.SortOf(sl.Elem())
	asrt := arraySort(x.S.Idx(), es)
	hn, hs := x.S.ElemHeapT(sl.Elem())
	h := x.heapGet(st, hn, hs)
	dref, doff, dlen, _ := x.sliceParts(d)
	var sarr, soff, slen Term
	if isString(args[1].Type()) {
		str := x.val(fr, args[1]).T
		fn := "str2bytes$" + sortTag(es)
		x.declUF(fn, fmt.Sprintf("(Str) %s", asrt))
		sarr = Term{app(fn, str), asrt}
		soff = x.S.IdxLit(0)
		slen = x.intToIdx(Term{app("strlen", str), "Int"})
	} else {
		s := x.val(fr, args[1]).T
		var sref Term
		sref, soff, slen, _ = x.sliceParts(s)
		sarr = Term{app("select", h, sref), asrt}
	}
	n := x.defineIfBig("cpn", mkIte(x.iLt(dlen, slen), dlen, slen))
	darr := Term{app("select", h, dref), asrt}
	rarr := x.declare("carr", asrt)
	k := "k!c"
	kt := Term{k, x.S.Idx()}
	darrN := x.declareEq("darr", darr)
	sarrN := x.declareEq("sarr", sarr)
	x.assume(Term{fmt.Sprintf("(forall ((%s %s)) (! (= (select %s %s) (ite (and %s %s) (select %s %s) (select %s %s))) :pattern ((select %s %s)) :pattern ((select %s %s))))",
		k, x.S.Idx(), rarr.S, k,
		x.iLe(doff, kt).S, x.iLt(kt, x.iAdd(doff, n)).S,
		sarrN.S, x.iAdd(soff, x.iSub(kt, doff)).S,
		darrN.S, k, rarr.S, k, darrN.S, k), "Bool"})
	// the same fact read from the source side: element m of the source lands at doff+m
	m := "m!c"
	mt := Term{m, x.S.Idx()}
	x.assume(Term{fmt.Sprintf("(forall ((%s %s)) (! (=> (and %s %s) (= (select %s %s) (select %s %s))) :pattern ((select %s %s))))",
		m, x.S.Idx(), x.iLe(soff, mt).S, x.iLt(mt, x.iAdd(soff, n)).S,
		rarr.S, x.iAdd(doff, x.iSub(mt, soff)).S, sarrN.S, m, sarrN.S, m), "Bool"})
	x.heapSet(st, hn, mkStore(h, dref, rarr))
	x.setVal(fr, v, Val{T: n, Typ: v.Type()})
}

// ---------- maps: abstract (membership array, value array) ----------

func (x *Exec) mapHeaps(mt *types.Map) (dn, ds, vn, vs string) {
	ks, es := x.S.SortOf(mt.Key()), x.S.SortOf(mt.Elem())
	tag := sortTag(ks) + "$" + sortTag(es)
	dn, vn = "MD$"+tag, "MV$"+tag
	ds = arraySort("Int", arraySort(ks, "Bool"))
	vs = arraySort("Int", arraySort(ks, es))
	x.S.Heap(dn, ds)
	x.S.Heap(vn, vs)
	return
}

func (x *Exec) makeMap(fr *Frame, st *State, v *ssa.MakeMap) {
	mt := v.Type().Underlying().(*types.Map)
	ref := x.define("new", Term{app("+", st.Alloc, intLit(1)), "Int"})
	st.Alloc = ref
	x.markAlloc()
	dn, ds, _, _ := x.mapHeaps(mt)
	d := x.heapGet(st, dn, ds)
	ks := x.S.SortOf(mt.Key())
	x.heapSet(st, dn, mkStore(d, ref, Term{fmt.Sprintf("((as const %s) false)", arraySort(ks, "Bool")), arraySort(ks, "Bool")}))
	x.setVal(fr, v, Val{T: ref, Typ: v.Type()})
}

func (x *Exec) mapUpdate(fr *Frame, st *State, v *ssa.MapUpdate) {
	mt := v.Map.Type().Underlying().(*types.Map)
	m := x.val(fr, v.Map).T
	k := x.val(fr, v.Key).T
	val := x.materialize(st, x.val(fr, v.Value), mt.Elem())
	name := x.safetyName("nilmap", fr, v, x.exprText(v.Pos(), v.String()))
	x.oblige("nil", name, st.Guard, mkNot(mkEq(m, intLit(0))), "assignment to entry in nil map: "+v.String(), v.Pos(), true)
	dn, ds, vn, vs := x.mapHeaps(mt)
	ksrt, esrt := x.S.SortOf(mt.Key()), x.S.SortOf(mt.Elem())
	d := x.heapGet(st, dn, ds)
	vh := x.heapGet(st, vn, vs)
	dm := Term{app("select", d, m), arraySort(ksrt, "Bool")}
	vm := Term{app("select", vh, m), arraySort(ksrt, esrt)}
	x.heapSet(st, dn, mkStore(d, m, mkStore(dm, k, tTrue)))
	x.heapSet(st, vn, mkStore(vh, m, mkStore(vm, k, val)))
}

func (x *Exec) lookup(fr *Frame, st *State, v *ssa.Lookup) {
	mt, ok := v.X.Type().Underlying().(*types.Map)
	if !ok {
		panic(toolErr("Lookup on " + v.X.Type().String()))
	}
	m := x.val(fr, v.X).T
	k := x.val(fr, v.Index).T
	dn, ds, vn, vs := x.mapHeaps(mt)
	ksrt, esrt := x.S.SortOf(mt.Key()), x.S.SortOf(mt.Elem())
	d := x.heapGet(st, dn, ds)
	vh := x.heapGet(st, vn, vs)
	in := mkAnd(mkNot(mkEq(m, intLit(0))), Term{app("select", Term{app("select", d, m), arraySort(ksrt, "Bool")}, k), "Bool"})
	val := mkIte(in, Term{app("select", Term{app("select", vh, m), arraySort(ksrt, esrt)}, k), esrt}, x.zeroOf(mt.Elem()))
	val = x.defineIfBig("mv", val)
	x.assumeUnder(st.Guard, x.typeInv(val, mt.Elem(), 0))
	if v.CommaOk {
		fr.vals[v] = Val{Tuple: []Val{{T: val, Typ: mt.Elem()}, {T: in, Typ: types.Typ[types.Bool]}}, Typ: v.Type()}
		return
	}
	x.setVal(fr, v, Val{T: val, Typ: v.Type()})
}

func (x *Exec) builtinDelete(fr *Frame, st *State, v *ssa.Call) {
	mt := v.Call.Args[0].Type().Underlying().(*types.Map)
	m := x.val(fr, v.Call.Args[0]).T
	k := x.val(fr, v.Call.Args[1]).T
	dn, ds, _, _ := x.mapHeaps(mt)
	ksrt := x.S.SortOf(mt.Key())
	d := x.heapGet(st, dn, ds)
	dm := Term{app("select", d, m), arraySort(ksrt, "Bool")}
	x.heapSet(st, dn, mkStore(d, m, mkStore(dm, k, tFalse)))
}

// Range over a map or a string is over-approximated: the loop may run any number of
// times, each iteration sees an arbitrary key that is present in the map together with
// its value (an arbitrary position and rune for a string). Every real iteration order
// is among the runs considered; "each key exactly once" is not modelled, so nothing
// that depends on completeness of the traversal can be proved through such a loop.
func (x *Exec) rangeInstr(fr *Frame, st *State, v *ssa.Range) {
	x.assumed["range over a map/string is over-approximated (arbitrary number of iterations over arbitrary present keys); completeness of the traversal is not modelled"] = true
	it := x.val(fr, v.X)
	fr.vals[v] = Val{T: it.T, Typ: v.X.Type()}
}

func (x *Exec) nextInstr(fr *Frame, st *State, v *ssa.Next) {
	it := x.val(fr, v.Iter)
	tup, _ := v.Type().(*types.Tuple)
	ok := x.declare(fr.prefix+"more", "Bool")
	elem := func(i int) types.Type {
		if tup != nil && i < tup.Len() {
			if b, isB := tup.At(i).Type().(*types.Basic); isB && b.Kind() == types.Invalid {
				return nil
			}
			return tup.At(i).Type()
		}
		return nil
	}
	res := []Val{{T: ok, Typ: types.Typ[types.Bool]}, {}, {}}
	if v.IsString {
		if t := elem(1); t != nil {
			k := x.freshVal(fr.prefix+"ri", t, st)
			x.assumeUnder(st.Guard, mkImp(ok, mkAnd(x.iLe(x.S.IdxLit(0), k.T), x.iLt(k.T, Term{app("strlen", it.T), "Int"}))))
			res[1] = k
		}
		if t := elem(2); t != nil {
			res[2] = x.freshVal(fr.prefix+"rr", t, st)
		}
		fr.vals[v] = Val{Tuple: res, Typ: v.Type()}
		return
	}
	mt, isMap := it.Typ.Underlying().(*types.Map)
	if !isMap {
		panic(toolErr("range over " + it.Typ.String() + " outside the modelled subset in " + fr.fn.Name()))
	}
	dn, ds, vn, vs := x.mapHeaps(mt)
	ksrt, esrt := x.S.SortOf(mt.Key()), x.S.SortOf(mt.Elem())
	d := x.heapGet(st, dn, ds)
	vh := x.heapGet(st, vn, vs)
	k := x.freshVal(fr.prefix+"rk", mt.Key(), st)
	in := mkAnd(mkNot(mkEq(it.T, intLit(0))), Term{app("select", Term{app("select", d, it.T), arraySort(ksrt, "Bool")}, k.T), "Bool"})
	x.assumeUnder(st.Guard, mkImp(ok, in))
	if elem(1) != nil {
		res[1] = k
	}
	if t := elem(2); t != nil {
		val := x.defineIfBig("rv", Term{app("select", Term{app("select", vh, it.T), arraySort(ksrt, esrt)}, k.T), esrt})
		x.assumeUnder(st.Guard, x.typeInv(val, mt.Elem(), 0))
		x.assumeUnder(st.Guard, x.refsBelow(val, mt.Elem(), st.Alloc, 0))
		res[2] = Val{T: val, Typ: t}
	}
	fr.vals[v] = Val{Tuple: res, Typ: v.Type()}
}

var _ = token.ADD
var _ = big.NewInt
