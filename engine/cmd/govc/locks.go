package main

import (
	"fmt"
	"go/token"
	"go/types"
	"strings"

	"golang.org/x/tools/go/ssa"
)

// Lock discipline as contract obligations (sequential, per function): a package
// may declare  "//@ guarded T.f, T.g by T.mu"; then every store to such a field
// must happen while T.mu of the same object is held exclusively, and every load
// while it is held at least shared. The mutex state is a ghost cell per mutex:
// 0 = not held by this function, 1 = held shared (RLock), 2 = held exclusively.
// Functions are entered with no lock held (stated assumption). Together with
// "all accesses go through functions that obey this" this is what makes the
// guarded fields data-race free; the check itself involves no interleavings.

func (x *Exec) lockCell(p Val) *Addr {
	if p.Addr != nil && p.Addr.Kind == akField {
		a := p.Addr
		key := fmt.Sprintf("lock$%s$%s", strings.TrimPrefix(a.SSort, "S_"), sanitize(a.Struct.Field(a.Field).Name()))
		return &Addr{Kind: akGhost, Global: key, Ref: a.Ref, RootT: types.Typ[types.Int], T: types.Typ[types.Int]}
	}
	if p.Addr == nil && p.T.S != "" {
		return &Addr{Kind: akGhost, Global: "lock$standalone", Ref: p.T, RootT: types.Typ[types.Int], T: types.Typ[types.Int]}
	}
	return nil
}

func lockOp(state int64, what string) libHandler {
	return func(x *Exec, fr *Frame, st *State, site ssa.Instruction, c *ssa.CallCommon, args []Val, rt types.Type) Val {
		x.assumed["mutexes: Lock/RLock/Unlock only update a ghost 'held' state (sequential semantics; blocking and other goroutines are not modelled)"] = true
		if a := x.lockCell(args[0]); a != nil && x.mode == ModeInt {
			x.storeAddr(st, a, intLit(state))
		}
		if state > 0 && x.contract != nil && x.contract.Interference && x.inSpec == 0 {
			x.interfere(st, args[0])
		}
		return Val{Typ: rt}
	}
}

// guardFor returns the ghost lock cell that protects the field an address
// denotes, if the package declared one.
func (x *Exec) guardFor(a *Addr) (*Addr, string) {
	if a == nil || a.Kind != akField || len(x.DB.Guards) == 0 {
		return nil, ""
	}
	tname := strings.TrimPrefix(a.SSort, "S_")
	if k := strings.LastIndex(tname, "."); k >= 0 {
		tname = tname[k+1:]
	}
	fname := a.Struct.Field(a.Field).Name()
	mu, ok := x.DB.Guards[tname+"."+fname]
	if !ok {
		return nil, ""
	}
	key := fmt.Sprintf("lock$%s$%s", strings.TrimPrefix(a.SSort, "S_"), sanitize(mu))
	return &Addr{Kind: akGhost, Global: key, Ref: a.Ref, RootT: types.Typ[types.Int], T: types.Typ[types.Int]}, tname + "." + fname
}

func (x *Exec) checkGuard(fr *Frame, st *State, p Val, write bool, ins ssa.Instruction, pos token.Pos) {
	if p.Addr == nil || x.mode != ModeInt || x.inSpec > 0 {
		return
	}
	g, what := x.guardFor(p.Addr)
	if g == nil {
		return
	}
	held := x.loadAddr(st, g)
	var goal Term
	kind := "read"
	if write {
		kind = "write"
		goal = mkEq(held, intLit(2))
	} else {
		goal = Term{app(">=", held, intLit(1)), "Bool"}
	}
	// an object allocated by this very call is not shared yet: initialising its
	// fields needs no lock
	goal = mkOr(goal, Term{app(">", p.Addr.Ref, x.entry.Alloc), "Bool"})
	name := x.safetyName("lock-"+kind, fr, ins, what)
	x.oblige("lock", name, st.Guard, goal, fmt.Sprintf("%s of guarded field %s without holding its mutex (%s)", kind, what, map[bool]string{true: "exclusively", false: "at least shared"}[write]), pos, true)
}

// interfere models what other goroutines may have done before this function got the
// mutex ("interference" clause of the contract): every field the mutex guards -- in the
// object the mutex belongs to -- holds an arbitrary value from here on. (For a guarded map
// or slice field that is a fresh reference, i.e. arbitrary contents as well.) Anything
// the function learned about those fields before it held the lock is thereby forgotten,
// which is exactly what a check-then-lock-then-act sequence must not rely on.
func (x *Exec) interfere(st *State, mu Val) {
	if mu.Addr == nil || mu.Addr.Kind != akField || len(x.DB.Guards) == 0 {
		return
	}
	a := mu.Addr
	tname := strings.TrimPrefix(a.SSort, "S_")
	if k := strings.LastIndex(tname, "."); k >= 0 {
		tname = tname[k+1:]
	}
	muName := a.Struct.Field(a.Field).Name()
	for i := 0; i < a.Struct.NumFields(); i++ {
		f := a.Struct.Field(i)
		if g, ok := x.DB.Guards[tname+"."+f.Name()]; !ok || g != muName {
			continue
		}
		fa := &Addr{Kind: akField, Ref: a.Ref, SSort: a.SSort, Struct: a.Struct, Field: i, RootT: f.Type(), T: f.Type()}
		nv := x.freshVal("interf_"+sanitize(f.Name()), f.Type(), st)
		x.storeAddr(st, fa, nv.T)
		x.assumed["interference: on acquiring "+tname+"."+muName+" the fields it guards are arbitrary (other goroutines may have run)"] = true
	}
}
