package main

import (
	"go/token"

	"golang.org/x/tools/go/ssa"
)

// A local variable's cell is "private" when its address never leaves the function:
// it is only loaded from, stored to, or captured by closures that are themselves only
// deferred/called/spawned in place and treat it the same way. No callee can reach such
// a cell, so a call nothing is known about (which forgets every heap) leaves it alone.
// Typical case: a named result that a deferred closure adjusts.
type privCell struct {
	heap string
	ref  Term
}

func addrPrivate(v ssa.Value, depth int) bool {
	if depth > 4 {
		return false
	}
	refs := v.Referrers()
	if refs == nil {
		return false
	}
	for _, r := range *refs {
		switch u := r.(type) {
		case *ssa.DebugRef:
		case *ssa.Store:
			if u.Val == v {
				return false
			}
		case *ssa.UnOp:
			if u.Op != token.MUL {
				return false
			}
		case *ssa.FieldAddr:
			// &local.f used only to load/store that field
			if u.X != v || !addrPrivate(u, depth+1) {
				return false
			}
		case *ssa.MakeClosure:
			fn, ok := u.Fn.(*ssa.Function)
			if !ok || !closureUsedInPlace(u) {
				return false
			}
			for i, b := range u.Bindings {
				if b == v {
					if i >= len(fn.FreeVars) || !addrPrivate(fn.FreeVars[i], depth+1) {
						return false
					}
				}
			}
		default:
			return false
		}
	}
	return true
}

func closureUsedInPlace(mc *ssa.MakeClosure) bool {
	refs := mc.Referrers()
	if refs == nil {
		return false
	}
	for _, r := range *refs {
		switch u := r.(type) {
		case *ssa.DebugRef:
		case *ssa.Defer:
			if u.Call.Value != mc {
				return false
			}
		case *ssa.Call:
			if u.Call.Value != mc {
				return false
			}
		case *ssa.Go:
			if u.Call.Value != mc {
				return false
			}
		default:
			return false
		}
	}
	return true
}
