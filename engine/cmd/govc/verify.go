package main

import (
	"fmt"
	"go/types"
	"sort"
	"strings"

	"golang.org/x/tools/go/ssa"
)

// FuncResult is what verifying one function (or lemma) produced.
type FuncResult struct {
	Key       string
	Mode      Mode
	Obls      []*Obligation
	Assumed   []string
	Inlined   []string
	Err       error
	Trusted   bool
	Partial   bool // termination not shown (no decreases on some loop)
	NoSafety  bool
	LoopCount int
	UnresolvedHints []string // witness names that did not resolve at some return
	fn        *ssa.Function
	ct        *Contract
}

func newExec(P *Program, DB *SpecDB, S *Sorts, mode Mode) *Exec {
	return &Exec{P: P, DB: DB, S: S, mode: mode, assumed: map[string]bool{}, counters: map[string]int{},
		writes: map[*ssa.BasicBlock]map[string]bool{}, inlined: map[string]bool{}, ufDecl: S.uf,
		constGlobals: map[string]bool{}, ghost: map[string]Val{}, sentAssumed: map[string]bool{}, rename: currentRename}
}

// VerifyFunc generates the obligations of one function under contract.
func VerifyFunc(P *Program, DB *SpecDB, fn *ssa.Function, ct *Contract) (res *FuncResult) {
	key := FuncKey(fn)
	if ct.Case != "" {
		key += "#" + ct.Case
	}
	res = &FuncResult{Key: ShortKey(key), Mode: ct.Mode, Trusted: ct.Trusted, NoSafety: ct.NoSafety, fn: fn, ct: ct}
	defer func() {
		if r := recover(); r != nil {
			if te, ok := r.(toolErr); ok {
				res.Err = fmt.Errorf("%s: %s", res.Key, string(te))
				return
			}
			panic(r)
		}
	}()
	if ct.Trusted {
		return res
	}
	S := NewSorts(ct.Mode)
	// pass 1: discover heaps and per-block write sets
	p1 := newExec(P, DB, S, ct.Mode)
	p1.discover = true
	p1.setup(fn, key, ct)
	p1.runTop()
	// pass 2
	S.fresh = 0
	p2 := newExec(P, DB, S, ct.Mode)
	p2.writes = p1.writes
	p2.setup(fn, key, ct)
	p2.runTop()
	for k, as := range ct.Asserts {
		// a program-point clause whose anchor matches no line of the function binds to
		// nothing: say so instead of silently proving nothing
		label := as.Name
		if label == "" {
			label = fmt.Sprintf("%d", k+1)
		}
		seen := p2.counters["assert-at#"+label]
		if seen == 0 || as.AtN != 0 && seen < as.AtN {
			panic(toolErr(fmt.Sprintf("assert [%s]: no source line of the function matches its anchor %q (occurrence %d)", label, as.At, as.AtN)))
		}
	}
	script := &Script{Preamble: S.Preamble(), Lines: p2.lines}
	opaqueFloats(script, p2.obls)
	for _, o := range p2.obls {
		o.Script = script
	}
	res.Obls = p2.obls
	for h := range p2.unresolvedHints {
		res.UnresolvedHints = append(res.UnresolvedHints, h)
	}
	sort.Strings(res.UnresolvedHints)
	for a := range p2.assumed {
		res.Assumed = append(res.Assumed, a)
	}
	sort.Strings(res.Assumed)
	for a := range p2.inlined {
		res.Inlined = append(res.Inlined, a)
	}
	sort.Strings(res.Inlined)
	_, _, loops := analyseCFG(fn)
	res.LoopCount = len(loops)
	for _, ls := range ct.Loops {
		if ls.Ordinal < 1 || ls.Ordinal > len(loops) {
			// a loop clause that binds to nothing would be silently ignored (and everything
			// that leans on its invariant would merely time out)
			res.Err = toolErr(fmt.Sprintf("contract names loop %d, the function has %d loops", ls.Ordinal, len(loops)))
		}
	}
	for _, li := range loops {
		found := false
		for _, ls := range ct.Loops {
			if ls.Ordinal == li.ordinal && ls.Decreases != nil {
				found = true
			}
		}
		if !found {
			res.Partial = true
		}
	}
	return res
}

func (x *Exec) setup(fn *ssa.Function, key string, ct *Contract) {
	x.top = fn
	x.topKey = key
	x.contract = ct
	x.nosafety = ct.NoSafety
	x.wraps = ct.Wraps
	x.entry = &State{Guard: tTrue, Heaps: map[string]Term{}, Alloc: Term{"alloc@0", "Int"}}
	x.emit("(declare-const alloc@0 Int)")
	x.emit("(assert (>= alloc@0 0))")
	var names []string
	for h := range x.S.heaps {
		names = append(names, h)
	}
	sort.Strings(names)
	for _, h := range names {
		x.emit(fmt.Sprintf("(declare-const %s@0 %s)", h, x.S.heaps[h]))
		x.entry.Heaps[h] = Term{h + "@0", x.S.heaps[h]}
		locksInPre := false
		for _, rq := range ct.Requires {
			if strings.Contains(rq.Text, "locked(") {
				locksInPre = true
			}
		}
		if strings.HasPrefix(h, "GH$lock$") && !locksInPre {
			// functions are entered holding no lock (unless their precondition speaks
			// about lock state, as the *NoLock helpers' contracts do)
			x.emit(fmt.Sprintf("(assert (= %s@0 ((as const %s) 0)))", h, x.S.heaps[h]))
		}
	}
}

func (x *Exec) runTop() {
	fn, ct := x.top, x.contract
	fr := x.newFrame(fn, true)
	st := x.entry
	var args []Val
	for _, p := range fn.Params {
		v := x.freshVal("p_"+p.Name(), p.Type(), st)
		args = append(args, v)
	}
	for i, fv := range fn.FreeVars {
		_ = i
		v := x.freshVal("fv_"+fv.Name(), fv.Type(), st)
		fr.vals[fv] = v
	}
	for i, p := range fn.Params {
		a := args[i]
		a.Typ = p.Type()
		fr.vals[p] = a
	}
	x.replayArgs = args
	if !x.discover {
		x.replayIn = x.replayInputs(fn, args)
	}
	// objects passed by pointer are well-typed at entry and every reference they hold
	// existed at entry
	for i, p := range fn.Params {
		pt := pointee(p.Type())
		if pt == nil {
			continue
		}
		if su, ok := asStruct(pt); ok {
			ss := x.S.SortOf(pt)
			nn := mkNot(mkEq(args[i].T, intLit(0)))
			for f := 0; f < su.NumFields(); f++ {
				a := &Addr{Kind: akField, Ref: args[i].T, SSort: ss, Struct: su, Field: f, RootT: su.Field(f).Type(), T: su.Field(f).Type()}
				fv := x.readRoot(st, a)
				x.assume(mkImp(nn, x.typeInv(fv, su.Field(f).Type(), 0)))
				x.assume(mkImp(nn, x.refsBelow(fv, su.Field(f).Type(), st.Alloc, 0)))
			}
		}
	}
	env := x.envAt(fr, fn.Blocks[0], st)
	for _, g := range ct.Ghost {
		t := x.resolveType(env, g.Type)
		v := x.freshVal("gh_"+g.Name, t, st)
		x.ghost[g.Name] = v
		env.vars[g.Name] = v
	}
	for _, rq := range ct.Requires {
		x.assume(x.evalBool(env, rq.E))
	}
	// reachability of the body under the preconditions
	x.cover("cover:requires", tTrue, "preconditions are satisfiable")
	x.replayPre = len(x.lines)
	exit, rets := x.run(fr, st.clone(), args)
	// postconditions
	penv := x.envAt(fr, nil, exit)
	penv.at = nil
	x.bindResults(penv, fn, tupleOf(rets, fn.Signature.Results()))
	penv.postMode = true
	var exitOut []*Obs
	// which returns some clause speaks about: a contract made only of return-anchored
	// clauses must anchor every return, or a newly added return would escape it
	retCovered := map[int]bool{}
	plainClauses, anchoredClauses := 0, 0
	for k, en := range ct.Ensures {
		label := en.Name
		if label == "" {
			label = fmt.Sprintf("%d", k+1)
		}
		if strings.HasPrefix(label, "ASSUMED") {
			// an unchecked postcondition: callers may use it, nothing proves it; it is
			// reported in the trusted base
			x.assumed["ASSUMED (unchecked) postcondition of "+x.topKeyShort()+": "+en.Text] = true
			continue
		}
		if wit, ok := ct.Witness[label]; (ok || en.At != "") && len(fr.retState) > 0 {
			// existentials with named witnesses are proved per return, with the
			// witness expressions read at that return; clauses anchored at a return
			// statement ("[label @ snippet]") are proved at the matching returns only
			var conj []Term
			matched := 0
			for ri := range fr.retState {
				rst := fr.retState[ri]
				if en.At != "" {
					ins := fr.retBlock[ri].Instrs[len(fr.retBlock[ri].Instrs)-1]
					line := x.lineText(ins.Pos())
					if en.At == "end" {
						// the implicit return at the closing brace of a function without results
						if ins.Pos().IsValid() && strings.Contains(line, "return") {
							continue
						}
					} else if !strings.Contains(line, en.At) {
						continue
					}
					matched++
					if en.AtN != 0 && matched != en.AtN {
						continue
					}
				}
				retCovered[ri] = true
				renv := x.envAt(fr, fr.retBlock[ri], rst)
				x.bindResults(renv, fn, tupleOf(fr.retVals[ri], fn.Signature.Results()))
				renv.postMode = true
				renv.witness = map[string]Val{}
				x.lookupAtEnd = true
				for _, wb := range wit {
					renv.witness[wb.Name] = x.evalWitness(renv, wb.E)
				}
				t := x.evalBool(renv, en.E)
				x.lookupAtEnd = false
				// named after the return statement's text, not its ordinal, so that adding or
				// reordering returns does not rename the obligations of the others
				rtxt := strings.Join(strings.Fields(x.lineText(fr.retBlock[ri].Instrs[len(fr.retBlock[ri].Instrs)-1].Pos())), "")
				if len(rtxt) > 32 {
					rtxt = rtxt[:32]
				}
				rname := fmt.Sprintf("post#%s@[%s]", label, rtxt)
				rname = fmt.Sprintf("%s#%d", rname, x.count(rname))
				if !x.discover {
					x.pendingOut = x.replayOutputs(fn, rst, fr.retVals[ri])
				}
				x.oblige("post", rname, rst.Guard, t, "postcondition (witnesses given) at return "+fmt.Sprint(ri+1)+": "+en.Text, fr.retBlock[ri].Instrs[len(fr.retBlock[ri].Instrs)-1].Pos(), false)
				x.pendingOut = nil
				conj = append(conj, mkImp(rst.Guard, t))
			}
			if en.At != "" {
				anchoredClauses++
			} else {
				plainClauses++
			}
			if en.At != "" && matched == 0 {
				// the anchored return is gone: the clause's obligations are simply not
				// generated, which the golden comparison reports (the rest of the function
				// is still checked)
				x.assumed["unmatched return anchor for clause ["+label+"]: "+en.At] = true
			}
			continue
		}
		plainClauses++
		t := x.evalBool(penv, en.E)
		if !x.discover {
			if exitOut == nil {
				exitOut = x.replayOutputs(fn, exit, rets)
			}
			x.pendingOut = exitOut
		}
		x.oblige("post", "post#"+label, exit.Guard, t, "postcondition: "+en.Text, fn.Pos(), false)
		x.pendingOut = nil
	}
	if anchoredClauses > 0 && plainClauses == 0 {
		for ri := range fr.retState {
			if retCovered[ri] {
				continue
			}
			last := fr.retBlock[ri].Instrs[len(fr.retBlock[ri].Instrs)-1]
			rtxt := strings.Join(strings.Fields(x.lineText(last.Pos())), "")
			if len(rtxt) > 32 {
				rtxt = rtxt[:32]
			}
			rname := fmt.Sprintf("post#uncovered-return@[%s]", rtxt)
			rname = fmt.Sprintf("%s#%d", rname, x.count(rname))
			// an error return needs no clause of its own; any other return does
			goal := tFalse
			rs := fn.Signature.Results()
			if n := rs.Len(); n > 0 && types.TypeString(rs.At(n-1).Type(), nil) == "error" && len(fr.retVals[ri]) == n {
				ev := fr.retVals[ri][n-1]
				if ev.T.Sort == "Iface" {
					goal = mkNot(mkEq(ev.T, Term{"(mk_iface 0 0)", "Iface"}))
				}
			}
			x.oblige("post", rname, fr.retState[ri].Guard, goal, "a return that no clause of the contract speaks about (every clause is anchored at some other return) must be an error return", last.Pos(), false)
		}
	}
	if ct.ModGiven {
		x.frameObligations(fr, penv, exit)
	}
	x.cover("cover:exit", exit.Guard, "some execution reaches a return under the preconditions and invariants")
	if !x.discover && len(x.obls) > 0 && x.replayIn != nil {
		// inputs and outputs of the merged exit state: used by the translator-conformance
		// self-test (zconform.go), which runs the real function on a model of this state
		if exitOut == nil {
			exitOut = x.replayOutputs(fn, exit, rets)
		}
		last := x.obls[len(x.obls)-1]
		last.Replay = &ReplayInfo{Fn: fn, In: x.replayIn, Out: exitOut, StrConsts: x.S.strConsts, BV: x.mode == ModeBV, PrePrefix: x.replayPre}
	}
	// must-fail canary: the negation of the first postcondition must not be provable
	canaryIdx := -1
	for k, en := range ct.Ensures {
		label := en.Name
		if label == "" {
			label = fmt.Sprintf("%d", k+1)
		}
		if _, w := ct.Witness[label]; !w && en.At == "" && !strings.HasPrefix(label, "ASSUMED") {
			canaryIdx = k
			break
		}
	}
	if canaryIdx < 0 && len(ct.Ensures) > 0 && !x.discover && len(fr.retState) > 0 {
		// only return-anchored clauses: the canary negates the first one at its first matching return
		en := ct.Ensures[0]
		cmatched := 0
		for ri := range fr.retState {
			ins := fr.retBlock[ri].Instrs[len(fr.retBlock[ri].Instrs)-1]
			if en.At != "" && en.At != "end" && !strings.Contains(x.lineText(ins.Pos()), en.At) {
				continue
			}
			if en.At == "end" && ins.Pos().IsValid() && strings.Contains(x.lineText(ins.Pos()), "return") {
				continue
			}
			cmatched++
			if en.AtN != 0 && cmatched != en.AtN {
				continue
			}
			renv := x.envAt(fr, fr.retBlock[ri], fr.retState[ri])
			x.bindResults(renv, fn, tupleOf(fr.retVals[ri], fn.Signature.Results()))
			x.lookupAtEnd = true
			if wit, ok := ct.Witness[en.Name]; ok {
				renv.witness = map[string]Val{}
				for _, wb := range wit {
					renv.witness[wb.Name] = x.evalWitness(renv, wb.E)
				}
			}
			t := x.evalBool(renv, en.E)
			x.lookupAtEnd = false
			o := &Obligation{Name: x.topKeyShort() + "/canary:not-post#1", Kind: "canary", Func: x.topKeyShort(), Prefix: len(x.lines),
				Goal: mkImp(fr.retState[ri].Guard, mkNot(t)).S, Detail: "vacuity canary: the negated first postcondition must NOT be provable", MustFail: true}
			x.obls = append(x.obls, o)
			break
		}
	}
	if canaryIdx >= 0 && !x.discover {
		t := x.evalBool(penv, ct.Ensures[canaryIdx].E)
		o := &Obligation{Name: x.topKeyShort() + "/canary:not-post#1", Kind: "canary", Func: x.topKeyShort(), Prefix: len(x.lines),
			Goal: mkImp(exit.Guard, mkNot(t)).S, Detail: "vacuity canary: the negated first postcondition must NOT be provable", MustFail: true}
		x.obls = append(x.obls, o)
	}
}

func (x *Exec) cover(name string, g Term, detail string) {
	if x.discover {
		return
	}
	o := &Obligation{Name: x.topKeyShort() + "/" + name, Kind: "cover", Func: x.topKeyShort(), Prefix: len(x.lines), Goal: g.S, Detail: detail, Cover: true}
	x.obls = append(x.obls, o)
}

// frameObligations: every heap cell that existed at entry and is not named by a
// modifies clause has its entry value at exit.
func (x *Exec) frameObligations(fr *Frame, penv *SpecEnv, exit *State) {
	ct := x.contract
	type excl struct{ ref Term }
	ex := map[string][]Term{}
	entryEnv := penv.inState(x.entry)
	for _, mt := range ct.Modifies {
		e := mt.E
		if ix, ok := e.(EIndex); ok {
			if id, ok := ix.I.(EIdent); ok && id.Name == "*" {
				v := x.evalVal(entryEnv, ix.X)
				sl := v.Typ.Underlying().(*types.Slice)
				hn, _ := x.S.ElemHeapT(sl.Elem())
				ex[hn] = append(ex[hn], Term{app("s_ref", v.T), "Int"})
				continue
			}
		}
		switch t := e.(type) {
		case EField:
			base := x.evalVal(entryEnv, t.X)
			if _, isIface := base.Typ.Underlying().(*types.Interface); isIface {
				// ghost field of an interface-typed object
				name := x.specIfaceName(entryEnv, t.X, base.Typ)
				is, ok := x.DB.Ifaces[name]
				if !ok {
					panic(specErr("modifies %s: no interface specification for %s", mt.Text, name))
				}
				a := x.ghostAddr(is, t.Name, base)
				hn, _, _ := x.rootHeap(a)
				ex[hn] = append(ex[hn], a.Ref)
				continue
			}
			pt := pointee(base.Typ)
			su, _ := asStruct(pt)
			idx, _ := findField(su, t.Name)
			var a *Addr
			if idx < 0 {
				if a = x.ghostFieldAddr(pt, t.Name, base); a == nil {
					panic(specErr("modifies %s: no such field", mt.Text))
				}
			} else {
				a = x.fieldAddr(base, pt, idx)
			}
			hn, _, _ := x.rootHeap(a)
			ex[hn] = append(ex[hn], a.Ref)
		case EUnary:
			base := x.evalVal(entryEnv, t.X)
			pt := pointee(base.Typ)
			if su, ok := asStruct(pt); ok {
				ss := x.S.SortOf(pt)
				for i := 0; i < su.NumFields(); i++ {
					hn, _ := x.S.FieldHeap(ss, su, i)
					ex[hn] = append(ex[hn], base.T)
				}
			} else {
				hn, _ := x.S.CellHeapT(pt)
				ex[hn] = append(ex[hn], base.T)
			}
		}
	}
	var names []string
	for h := range exit.Heaps {
		names = append(names, h)
	}
	sort.Strings(names)
	for _, h := range names {
		cur := exit.Heaps[h]
		old := x.entry.Heaps[h]
		if cur.S == old.S {
			continue
		}
		if h == "GH$sort$stable" {
			continue // bookkeeping of the model (which sort ran last), not program state
		}
		srt := x.S.heaps[h]
		var goal Term
		if strings.HasPrefix(srt, "(Array Int ") {
			conds := []Term{{fmt.Sprintf("(<= r!fr %s)", x.entry.Alloc.S), "Bool"}, {"(> r!fr 0)", "Bool"}} // reference 0 is nil, never an object
			for _, r := range ex[h] {
				conds = append(conds, mkNot(mkEq(Term{"r!fr", "Int"}, r)))
			}
			goal = Term{fmt.Sprintf("(forall ((r!fr Int)) (=> %s (= (select %s r!fr) (select %s r!fr))))", mkAnd(conds...).S, cur.S, old.S), "Bool"}
		} else {
			if strings.HasPrefix(h, "GH$") || strings.HasPrefix(h, "G$") {
				goal = mkEq(cur, old)
			} else {
				continue
			}
		}
		x.oblige("frame", "frame#"+h, exit.Guard, goal, "frame: "+h+" unchanged outside the modifies clause", x.top.Pos(), false)
	}
}

// VerifyLemma generates the obligations of a lemma: its ensures follow from its
// requires for all values of its variables, with real functions referenced in
// it replaced by their symbolic summaries (their SSA bodies, executed in place).
func VerifyLemma(P *Program, DB *SpecDB, l *Lemma) (res *FuncResult) {
	res = &FuncResult{Key: "lemma:" + l.Name, Mode: l.Mode}
	defer func() {
		if r := recover(); r != nil {
			if te, ok := r.(toolErr); ok {
				res.Err = fmt.Errorf("lemma %s: %s", l.Name, string(te))
				return
			}
			panic(r)
		}
	}()
	S := NewSorts(l.Mode)
	var final *Exec
	for pass := 1; pass <= 2; pass++ {
		S.fresh = 0
		x := newExec(P, DB, S, l.Mode)
		x.discover = pass == 1
		x.topKey = "lemma:" + l.Name
		x.contract = &Contract{}
		x.entry = &State{Guard: tTrue, Heaps: map[string]Term{}, Alloc: Term{"alloc@0", "Int"}}
		x.emit("(declare-const alloc@0 Int)")
		x.emit("(assert (>= alloc@0 0))")
		var names []string
		for h := range S.heaps {
			names = append(names, h)
		}
		sort.Strings(names)
		for _, h := range names {
			x.emit(fmt.Sprintf("(declare-const %s@0 %s)", h, S.heaps[h]))
			x.entry.Heaps[h] = Term{h + "@0", S.heaps[h]}
		}
		env := &SpecEnv{x: x, vars: map[string]Val{}, cur: x.entry, old: x.entry}
		if sp, ok := P.SSA[l.Pkg]; ok {
			env.pkg = sp.Pkg
		}
		for _, v := range l.Vars {
			t := x.resolveType(env, v.Type)
			env.vars[v.Name] = x.freshVal("v_"+v.Name, t, x.entry)
		}
		for _, rq := range l.Requires {
			x.assume(x.evalBool(env, rq.E))
		}
		x.cover("cover:requires", tTrue, "lemma hypotheses are satisfiable")
		for k, en := range l.Ensures {
			label := en.Name
			if label == "" {
				label = fmt.Sprintf("%d", k+1)
			}
			x.oblige("lemma", "ensures#"+label, tTrue, x.evalBool(env, en.E), "lemma conclusion: "+en.Text, 0, false)
		}
		if len(l.Ensures) > 0 && !x.discover {
			t := x.evalBool(env, l.Ensures[0].E)
			x.obls = append(x.obls, &Obligation{Name: x.topKeyShort() + "/canary:not-ensures#1", Kind: "canary", Func: x.topKeyShort(),
				Prefix: len(x.lines), Goal: mkNot(t).S, Detail: "vacuity canary", MustFail: true})
		}
		final = x
	}
	script := &Script{Preamble: S.Preamble(), Lines: final.lines}
	for _, o := range final.obls {
		o.Script = script
	}
	res.Obls = final.obls
	for a := range final.assumed {
		res.Assumed = append(res.Assumed, a)
	}
	sort.Strings(res.Assumed)
	for a := range final.inlined {
		res.Inlined = append(res.Inlined, a)
	}
	sort.Strings(res.Inlined)
	return res
}
