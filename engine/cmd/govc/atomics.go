package main

import (
	"fmt"
	"go/token"
	"go/types"

	"golang.org/x/tools/go/ssa"
)

// Rely/guarantee treatment of a shared cell accessed through sync/atomic when
// the function's contract declares "atomic T.f": a load returns ANY value the
// rely allows (other threads may have written in between); every write this
// function performs must establish the guarantee with respect to the value it
// replaces. The argument that strictly increasing, invariant-preserving writes
// by all threads make the installed values pairwise distinct is stated in
// DESIGN.md; the per-step obligations are what is checked here.

func (x *Exec) atomicSpecFor(p Val) *AtomicSpec {
	if x.contract == nil || len(x.contract.Atomics) == 0 || p.Addr == nil || p.Addr.Kind != akField {
		return nil
	}
	a := p.Addr
	name := a.Struct.Field(a.Field).Name()
	for _, as := range x.contract.Atomics {
		// key "Struct.field": compare the field name and the struct sort suffix
		if k := as.Key; len(k) > len(name) && k[len(k)-len(name):] == name && k[len(k)-len(name)-1] == '.' {
			st := k[:len(k)-len(name)-1]
			if len(a.SSort) >= len(st) && a.SSort[len(a.SSort)-len(st):] == st {
				return as
			}
		}
	}
	return nil
}

func (x *Exec) rgEnv(fr *Frame, st *State, vars map[string]Val) *SpecEnv {
	env := x.envAt(fr, nil, st)
	env.fr = nil
	if fr != nil && fr.fn.Pkg != nil {
		env.pkg = fr.fn.Pkg.Pkg
	}
	for k, v := range vars {
		env.vars[k] = v
	}
	return env
}

func init() {
	origLoad := func() libHandler { return nil }
	_ = origLoad
}

func rgLoad(x *Exec, fr *Frame, st *State, site ssa.Instruction, c *ssa.CallCommon, args []Val, rt types.Type) (Val, bool) {
	as := x.atomicSpecFor(args[0])
	if as == nil {
		return Val{}, false
	}
	x.assumed["rely/guarantee for "+as.Key+": atomic loads return any value allowed by the rely; other threads' writes are assumed to satisfy the same guarantee"] = true
	v := x.freshVal("rg_load", rt, st)
	if as.Rely != nil {
		x.assumeUnder(st.Guard, x.evalBool(x.rgEnv(fr, st, map[string]Val{"v": v}), as.Rely.E))
	}
	return v, true
}

func (x *Exec) rgGuarantee(fr *Frame, st *State, as *AtomicSpec, site ssa.Instruction, what string, cur, nw Val, g Term) {
	if as.Guarantee == nil {
		return
	}
	t := x.evalBool(x.rgEnv(fr, st, map[string]Val{"cur": cur, "new": nw}), as.Guarantee.E)
	name := fmt.Sprintf("guarantee@%s#%d", what, x.count("guarantee@"+what))
	x.oblige("pre", name, g, t, "guarantee of "+as.Key+" at "+what+": "+as.Guarantee.Text, site.Pos(), false)
}

func rgCAS(x *Exec, fr *Frame, st *State, site ssa.Instruction, c *ssa.CallCommon, args []Val, rt types.Type) (Val, bool) {
	as := x.atomicSpecFor(args[0])
	if as == nil {
		return Val{}, false
	}
	// success is not under this thread's control; when it succeeds the cell held
	// exactly `old`, and it now holds `new`
	ok := x.declare("cas_ok", "Bool")
	t := pointee(c.Args[0].Type())
	cur := args[1]
	cur.Typ = t
	nw := args[2]
	nw.Typ = t
	// the value compared against was read earlier under the rely; on success it is the current value
	x.rgGuarantee(fr, st, as, site, "CompareAndSwap", cur, nw, mkAnd(st.Guard, ok))
	curMem := x.loadPtr(st, args[0], t)
	x.storePtr(st, args[0], t, mkIte(ok, nw.T, curMem))
	return Val{T: ok, Typ: rt}, true
}

func rgAdd(x *Exec, fr *Frame, st *State, site ssa.Instruction, c *ssa.CallCommon, args []Val, rt types.Type) (Val, bool) {
	as := x.atomicSpecFor(args[0])
	if as == nil {
		return Val{}, false
	}
	t := pointee(c.Args[0].Type())
	cur := x.freshVal("rg_addcur", t, st)
	env := x.rgEnv(fr, st, map[string]Val{"v": cur})
	if as.Rely != nil {
		x.assumeUnder(st.Guard, x.evalBool(env, as.Rely.E))
	}
	if as.AddAssume != nil {
		x.assumed["ASSUMED (unchecked) at the atomic add on "+as.Key+": "+as.AddAssume.Text] = true
		x.assumeUnder(st.Guard, x.evalBool(env, as.AddAssume.E))
	}
	sum := x.binop(nil, st, token.ADD, cur, args[1], t, t, t, nil, token.NoPos)
	nw := Val{T: x.defineIfBig("rg_add", sum), Typ: t}
	x.rgGuarantee(fr, st, as, site, "Add", cur, nw, st.Guard)
	x.storePtr(st, args[0], t, nw.T)
	return Val{T: nw.T, Typ: rt}, true
}
