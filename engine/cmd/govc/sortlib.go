package main

import (
	"go/types"

	"golang.org/x/tools/go/ssa"
)

// sort.Sort / sort.Stable on a slice type that implements sort.Interface:
// assumed to permute the elements of that slice and to touch nothing else.
// (That the result is sorted, and the permutation property itself, are not
// modelled unless a contract says so.)
func sortSort(x *Exec, fr *Frame, st *State, site ssa.Instruction, c *ssa.CallCommon, args []Val, rt types.Type) Val {
	if len(args) == 1 && args[0].Dyn != nil {
		d := args[0].Dyn
		if sl, ok := d.Typ.Underlying().(*types.Slice); ok && d.Addr == nil {
			x.assumed["sort.Sort/sort.Stable only permute the elements of the slice they are given (Less/Swap of the slice type are not inspected)"] = true
			es := x.S.SortOf(sl.Elem())
			hn, hs := x.S.ElemHeapT(sl.Elem())
			h := x.heapGet(st, hn, hs)
			ref := Term{app("s_ref", d.T), "Int"}
			x.heapSet(st, hn, mkStore(h, ref, x.declare("sorted", arraySort(x.S.Idx(), es))))
			// remember WHICH sort was applied to this backing array last (spec builtin
			// stablysorted(s)): code that keeps "the last of equal elements" after sorting
			// is only right after a stable sort
			stable := int64(0)
			if callee := c.StaticCallee(); callee != nil && callee.Name() == "Stable" {
				stable = 1
			}
			x.storeAddr(st, stableSortCell(ref), intLit(stable))
			return Val{Typ: rt}
		}
	}
	x.assumed["sort.Sort on a value whose concrete type is not visible: all heaps havoced"] = true
	x.havocAll(st)
	return Val{Typ: rt}
}

// rootIdent is the identifier a modifies target is rooted at (a.f, a.f[*], *a -> "a").
func rootIdent(e Expr) string {
	for {
		switch t := e.(type) {
		case EIdent:
			return t.Name
		case EField:
			e = t.X
		case EIndex:
			e = t.X
		case EUnary:
			e = t.X
		case ESlice:
			e = t.X
		default:
			return ""
		}
	}
}

func stableSortCell(ref Term) *Addr {
	return &Addr{Kind: akGhost, Global: "sort$stable", Ref: ref, RootT: types.Typ[types.Int], T: types.Typ[types.Int]}
}
