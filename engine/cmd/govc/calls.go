package main

import (
	"fmt"
	"go/types"
	"sort"
	"strings"

	"golang.org/x/tools/go/ssa"
)

const maxInlineDepth = 4

func (x *Exec) call(fr *Frame, st *State, v *ssa.Call, c *ssa.CallCommon) {
	res := x.doCall(fr, st, v, c, v.Type())
	if res.Typ == nil {
		res.Typ = v.Type()
	}
	if res.Tuple == nil && res.Addr == nil && res.T.S != "" && len(res.T.S) > 48 {
		res.T = x.define(fr.prefix+v.Name(), res.T)
	}
	fr.vals[v] = res
}

func (x *Exec) doCall(fr *Frame, st *State, site ssa.Instruction, c *ssa.CallCommon, rt types.Type) Val {
	if b, ok := c.Value.(*ssa.Builtin); ok {
		return x.builtin(fr, st, site, c, b, rt)
	}
	if c.IsInvoke() {
		return x.invoke(fr, st, site, c, rt)
	}
	var args []Val
	for _, a := range c.Args {
		args = append(args, x.val(fr, a))
	}
	callee := c.StaticCallee()
	var bind []Val
	if callee == nil {
		fv := x.val(fr, c.Value)
		if fv.Fn != nil {
			callee = fv.Fn
			bind = fv.Bind
		}
	} else if mc, ok := c.Value.(*ssa.MakeClosure); ok {
		for _, bv := range mc.Bindings {
			bind = append(bind, x.val(fr, bv))
		}
	}
	if callee == nil {
		if p, ok := c.Value.(*ssa.Parameter); ok {
			// a function passed in as a parameter is an unknown but fixed pure function of
			// its arguments' values (stated in the trusted base)
			return x.ufCall(p.Name(), args, c.Signature(), st)
		}
		if u, ok := c.Value.(*ssa.UnOp); ok && len(c.Args) == 0 {
			if g, isG := u.X.(*ssa.Global); isG {
				// e.g. `var now = func() time.Time {...}`: a clock/ID hook that is handed nothing
				x.assumed["call of the package-level function variable "+g.Name()+"() (takes no arguments): assumed not to touch modelled state; result arbitrary"] = true
				return x.freshResult(fr, st, g.Name(), rt)
			}
		}
		x.assumed["call through a function value: all heaps havoced, result unconstrained"] = true
		x.havocAll(st)
		return x.freshResult(fr, st, "dyn", rt)
	}
	key := FuncKey(callee)
	if h, ok := libCalls[key]; ok {
		return h(x, fr, st, site, c, args, rt)
	}
	if h := libPrefix(key); h != nil {
		return h(x, fr, st, site, c, args, rt)
	}
	if ct := x.contractFor(callee); ct != nil && !(ct.Inline && callee.Blocks != nil) {
		return x.contractCall(fr, st, site, callee, ct, args, rt)
	}
	if callee.Blocks != nil && x.depth < maxInlineDepth && inlinable(callee) {
		rs := x.inlineCallBind(st, callee, args, bind, false, fr)
		return tupleOf(rs, rt)
	}
	x.assumed[fmt.Sprintf("call to %s without contract or inlinable body: all heaps havoced, result unconstrained", ShortKey(key))] = true
	x.havocAll(st)
	return x.freshResult(fr, st, callee.Name(), rt)
}

func tupleOf(rs []Val, rt types.Type) Val {
	if tup, ok := rt.(*types.Tuple); ok {
		if tup.Len() == 0 {
			return Val{Typ: rt}
		}
		return Val{Tuple: rs, Typ: rt}
	}
	if len(rs) == 1 {
		return rs[0]
	}
	return Val{Typ: rt}
}

func (x *Exec) freshResult(fr *Frame, st *State, prefix string, rt types.Type) Val {
	if tup, ok := rt.(*types.Tuple); ok && tup.Len() == 0 {
		return Val{Typ: rt}
	}
	return x.freshVal(prefix, rt, st)
}

// inlinable: loop-free, no goroutines/defer-with-recover.
func inlinable(fn *ssa.Function) bool {
	if fn.Blocks == nil {
		return false
	}
	n := 0
	for _, b := range fn.Blocks {
		for _, s := range b.Succs {
			if s.Dominates(b) {
				return false
			}
		}
		for _, ins := range b.Instrs {
			n++
			_ = ins // goroutines and channel operations are abstracted (see chanAssumption)
		}
	}
	return n < 3000 // straight-line code only; the unrolled simple8b packers have ~700 instructions
}

func (x *Exec) contractFor(fn *ssa.Function) *Contract {
	key := FuncKey(fn)
	if c, ok := x.DB.Contracts[key]; ok {
		return c
	}
	if o := fn.Origin(); o != nil && o != fn {
		if c, ok := x.DB.Contracts[FuncKey(o)]; ok {
			return c
		}
	}
	return nil
}

func (x *Exec) inlineCall(st *State, fn *ssa.Function, args []Val, spec bool) []Val {
	return x.inlineCallBind(st, fn, args, nil, spec, nil)
}

// inlineCallBind executes a loop-free callee in place. With spec=true it is
// used as a pure summary inside a specification: implicit-panic obligations
// are not generated and the state is not updated.
func (x *Exec) inlineCallBind(st *State, fn *ssa.Function, args []Val, bind []Val, spec bool, caller *Frame) []Val {
	if !inlinable(fn) {
		panic(toolErr("cannot inline " + fn.String() + " (loops or unsupported instructions); it needs a contract"))
	}
	x.depth++
	defer func() { x.depth-- }()
	fr := x.newFrame(fn, false)
	fr.prefix = fmt.Sprintf("i%d_", x.count("inl"))
	if caller != nil {
		fr.prefix = caller.prefix + fr.prefix
	}
	for i, fv := range fn.FreeVars {
		if i < len(bind) {
			fr.vals[fv] = bind[i]
		}
	}
	savedNS := x.nosafety
	if spec {
		x.nosafety = true
		x.inSpec++
	}
	x.inlined[ShortKey(FuncKey(fn))] = true
	out, rs := x.run(fr, st, args)
	if spec {
		x.nosafety = savedNS
		x.inSpec--
	}
	// continue in the callee's exit state
	g := st.Guard
	*st = *out
	// paths of the callee that panic do not return: the guard narrows to the
	// returning paths, which the callee's own panic obligations make total
	_ = g
	return rs
}

// havocAll forgets every heap (used for calls nothing is known about).
func (x *Exec) havocAll(st *State) {
	var names []string
	for h := range x.S.heaps {
		names = append(names, h)
	}
	sort.Strings(names)
	for _, h := range names {
		if strings.HasPrefix(h, "G$") && x.immutableGlobal(h) {
			continue
		}
		if strings.HasPrefix(h, "GH$lock$") {
			continue // a callee releases what it acquires: the locks this function holds are unchanged
		}
		old, had := st.Heaps[h]
		st.Heaps[h] = x.declare(h+"@h", x.S.heaps[h])
		x.noteWrite(h)
		if had {
			// cells of locals whose address never left this function are out of any callee's reach
			for _, pc := range x.privCells {
				if pc.heap == h {
					x.assume(mkEq(Term{app("select", st.Heaps[h], pc.ref), ""}, Term{app("select", old, pc.ref), ""}))
				}
			}
		}
	}
	na := x.declare("alloc@h", "Int")
	x.assume(Term{app(">=", na, st.Alloc), "Bool"})
	st.Alloc = na
	x.markAlloc()
}

func (x *Exec) immutableGlobal(h string) bool {
	return x.constGlobals[h]
}

// ---------- modular call against a contract ----------

func (x *Exec) contractCall(fr *Frame, st *State, site ssa.Instruction, callee *ssa.Function, ct *Contract, args []Val, rt types.Type) Val {
	x.callSeq++
	short := ShortKey(FuncKey(callee))
	if ct.Trusted {
		x.assumed["trusted contract: "+short] = true
	}
	cenv := &SpecEnv{x: x, vars: map[string]Val{}, cur: st, old: st}
	if callee.Pkg != nil {
		cenv.pkg = callee.Pkg.Pkg
	} else if callee.Object() != nil {
		cenv.pkg = callee.Object().Pkg()
	}
	if ct.Pkg != "" {
		if sp, ok := x.P.SSA[ct.Pkg]; ok {
			cenv.pkg = sp.Pkg
		}
	}
	pnames, ptypes := sigParams(callee)
	var interior []*Addr
	interiorNames := map[string]bool{}
	defer func() {
		if len(interior) > 0 && !ct.ModNothing && !ct.Pure {
			for _, ia := range interior {
				nv := x.declare("iarg", x.S.SortOf(ia.T))
				x.assume(x.typeInv(nv, ia.T, 0))
				x.storeAddr(st, ia, nv)
			}
		}
	}()
	for i := range pnames {
		if i < len(args) {
			a := args[i]
			if a.Addr != nil {
				// &s[i] / &o.f handed to a contracted callee: the callee sees an opaque
				// reference; unless it modifies nothing, whatever it points at is unknown
				// afterwards
				interior = append(interior, a.Addr)
				interiorNames[pnames[i]] = true
				a = Val{T: x.materialize(st, a, ptypes[i]), Typ: ptypes[i]}
			}
			a.Typ = ptypes[i]
			if a.T.S == "" {
				a.T = x.zeroOf(ptypes[i])
			}
			cenv.vars[pnames[i]] = a
			cenv.vars[fmt.Sprintf("arg%d", i)] = a
		}
	}
	// ghost parameters of the callee are existential at the call site: not supported
	// preconditions
	for k, rq := range ct.Requires {
		t := x.evalBool(cenv, rq.E)
		label := rq.Name
		if label == "" {
			label = fmt.Sprintf("%d", k+1)
		}
		name := fmt.Sprintf("pre@%s#%s@%d", short, label, x.count("pre@"+short+"#"+label))
		if x.contract != nil && x.contract.AssumePre && x.inSpec == 0 {
			// "assumepre": this function is checked for one functional clause only; what
			// its callees require (index ranges) is assumed here like its own panic sites
			x.assumed["call-site preconditions of callees are assumed, not proved, in "+ShortKey(x.topKey)+" (assumepre)"] = true
			x.assumeUnder(st.Guard, t)
			continue
		}
		x.oblige("pre", name, st.Guard, t, "precondition of "+short+": "+rq.Text, site.Pos(), false)
	}
	if ct.Pure {
		// deterministic, heap-independent: an uninterpreted function of the argument values
		var as []Val
		for i := range args {
			as = append(as, cenv.vars[fmt.Sprintf("arg%d", i)])
		}
		res := x.ufCall("lib."+short, as, callee.Signature, st)
		penv := &SpecEnv{x: x, vars: map[string]Val{}, cur: st, old: st, pkg: cenv.pkg}
		for k, v := range cenv.vars {
			penv.vars[k] = v
		}
		x.bindResults(penv, callee, res)
		for _, en := range ct.Ensures {
			x.assumeUnder(st.Guard, x.evalBool(penv, en.E))
		}
		return res
	}
	pre := st.clone()
	// frame
	if !ct.ModGiven {
		x.havocAll(st)
	} else if !ct.ModNothing {
		for _, mt := range ct.Modifies {
			if interiorNames[rootIdent(mt.E)] {
				continue // the real cells are the element/field the pointer came from; havoced below
			}
			x.havocTarget(cenv.inState(pre), st, mt)
		}
	}
	if ct.ModGiven && !x.pureNoAlloc(callee, ct) {
		na := x.declare("alloc@c", "Int")
		x.assume(Term{app(">=", na, st.Alloc), "Bool"})
		st.Alloc = na
		x.markAlloc()
		// Cells at references the callee allocated are not constrained by anything the
		// caller knew before the call (every reference the caller can dereference was
		// at most the old watermark), so heaps need no havoc beyond the modifies clause.
	}
	// results
	res := x.freshResult(fr, st, callee.Name()+"!r", rt)
	penv := &SpecEnv{x: x, vars: map[string]Val{}, cur: st, old: pre, pkg: cenv.pkg}
	for k, v := range cenv.vars {
		penv.vars[k] = v
	}
	x.bindResults(penv, callee, res)
	for k, en := range ct.Ensures {
		if en.At != "" {
			continue // speaks about the callee's locals at one of its returns: not visible to callers
		}
		label := en.Name
		if label == "" {
			label = fmt.Sprintf("%d", k+1)
		}
		if _, w := ct.Witness[label]; w {
			// the existential is kept (skolemised by the solver) for callers
		}
		x.assumeUnder(st.Guard, x.evalBool(penv, en.E))
	}
	return res
}

func (x *Exec) bindResults(env *SpecEnv, fn *ssa.Function, res Val) {
	sig := fn.Signature
	rs := sig.Results()
	var vals []Val
	if res.Tuple != nil {
		vals = res.Tuple
	} else if rs.Len() == 1 {
		vals = []Val{res}
	}
	for i := 0; i < rs.Len() && i < len(vals); i++ {
		v := vals[i]
		v.Typ = rs.At(i).Type()
		if n := rs.At(i).Name(); n != "" && n != "_" {
			env.vars[n] = v
		}
		env.vars[fmt.Sprintf("result%d", i)] = v
		if i == 0 {
			env.vars["result"] = v
		}
	}
}

// pureNoAlloc: the callee cannot allocate (syntactic scan), so heaps pass
// through a "modifies nothing" call unchanged without a quantified frame.
func (x *Exec) pureNoAlloc(fn *ssa.Function, ct *Contract) bool {
	if !ct.ModNothing || fn.Blocks == nil {
		return ct.ModNothing && ct.Trusted && fn.Blocks == nil && false
	}
	return x.noAllocScan(fn, map[*ssa.Function]bool{})
}

func (x *Exec) noAllocScan(fn *ssa.Function, seen map[*ssa.Function]bool) bool {
	if seen[fn] {
		return true
	}
	seen[fn] = true
	if fn.Blocks == nil {
		return false
	}
	for _, b := range fn.Blocks {
		for _, ins := range b.Instrs {
			switch v := ins.(type) {
			case *ssa.Alloc:
				if v.Heap {
					return false
				}
			case *ssa.MakeSlice, *ssa.MakeMap, *ssa.MakeChan, *ssa.MakeClosure, *ssa.MakeInterface:
				if _, ok := v.(*ssa.MakeInterface); ok {
					continue
				}
				return false
			case *ssa.Call:
				if b, ok := v.Call.Value.(*ssa.Builtin); ok {
					if b.Name() == "append" {
						return false
					}
					continue
				}
				cal := v.Call.StaticCallee()
				if cal == nil {
					return false
				}
				if _, ok := libCalls[FuncKey(cal)]; ok {
					continue
				}
				if !x.noAllocScan(cal, seen) {
					return false
				}
			}
		}
	}
	return true
}

// havocFresh: after a call that may allocate, every heap is unknown at the
// references the callee allocated and unchanged elsewhere (unless modified).
func (x *Exec) havocFresh(st, pre *State) {
	var names []string
	for h := range st.Heaps {
		names = append(names, h)
	}
	sort.Strings(names)
	for _, h := range names {
		srt := x.S.heaps[h]
		if !strings.HasPrefix(srt, "(Array Int ") {
			continue
		}
		cur := st.Heaps[h]
		nh := x.declare(h+"@f", srt)
		x.assume(Term{fmt.Sprintf("(forall ((r!f Int)) (! (=> (<= r!f %s) (= (select %s r!f) (select %s r!f))) :pattern ((select %s r!f))))",
			pre.Alloc.S, nh.S, cur.S, nh.S), "Bool"})
		st.Heaps[h] = nh
	}
}

// havocTarget forgets the cells named by one modifies target.
func (x *Exec) havocTarget(env *SpecEnv, st *State, mt ModTarget) {
	e := mt.E
	star := false
	if ix, ok := e.(EIndex); ok {
		if id, ok := ix.I.(EIdent); ok && id.Name == "*" {
			star = true
			e = ix.X
		}
	}
	if star {
		// elements of a slice: the whole backing array of that reference
		v := x.evalVal(env, e)
		sl, ok := v.Typ.Underlying().(*types.Slice)
		if !ok {
			panic(specErr("modifies %s[*]: not a slice", mt.Text))
		}
		es := x.S.SortOf(sl.Elem())
		hn, hs := x.S.ElemHeapT(sl.Elem())
		h := x.heapGet(st, hn, hs)
		ref := Term{app("s_ref", v.T), "Int"}
		x.heapSet(st, hn, mkStore(h, ref, x.declare("marr", arraySort(x.S.Idx(), es))))
		return
	}
	switch t := e.(type) {
	case EField:
		base := x.evalVal(env, t.X)
		if _, isIface := base.Typ.Underlying().(*types.Interface); isIface {
			// ghost field of an interface-typed object
			name := x.specIfaceName(env, t.X, base.Typ)
			is, ok := x.DB.Ifaces[name]
			if !ok {
				panic(specErr("modifies %s: no interface specification for %s", mt.Text, name))
			}
			ga := x.ghostAddr(is, t.Name, base)
			nv := x.declare("mg", x.S.SortOf(ga.RootT))
			x.assume(x.typeInv(nv, ga.RootT, 0))
			x.storeAddr(st, ga, nv)
			return
		}
		pt := pointee(base.Typ)
		if pt == nil {
			panic(specErr("modifies %s: base is not a pointer", mt.Text))
		}
		su, ok := asStruct(pt)
		if !ok {
			panic(specErr("modifies %s: not a struct", mt.Text))
		}
		idx, _ := findField(su, t.Name)
		if idx < 0 {
			if ga := x.ghostFieldAddr(pt, t.Name, base); ga != nil {
				nv := x.declare("mg", x.S.SortOf(ga.RootT))
				x.assume(x.typeInv(nv, ga.RootT, 0))
				x.storeAddr(st, ga, nv)
				return
			}
			panic(specErr("modifies %s: no such field", mt.Text))
		}
		a := x.fieldAddr(base, pt, idx)
		fv := x.declare("mf", x.S.SortOf(su.Field(idx).Type()))
		x.assume(x.typeInv(fv, su.Field(idx).Type(), 0))
		x.storeAddr(st, a, fv)
		return
	case EUnary:
		if t.Op == "*" {
			base := x.evalVal(env, t.X)
			pt := pointee(base.Typ)
			fv := x.declare("mp", x.S.SortOf(pt))
			x.assume(x.typeInv(fv, pt, 0))
			x.storePtr(st, base, pt, fv)
			return
		}
	case EIdent:
		// a whole heap by name, e.g. modifies heap(HS$Int)
	}
	panic(specErr("unsupported modifies target %s", mt.Text))
}

// ---------- interface method calls ----------

func (x *Exec) invoke(fr *Frame, st *State, site ssa.Instruction, c *ssa.CallCommon, rt types.Type) Val {
	recv := x.val(fr, c.Value)
	it := c.Value.Type()
	name := types.TypeString(it, func(p *types.Package) string { return p.Name() })
	if _, named := it.(*types.Named); !named {
		// a dependency declared as an anonymous interface type on a struct field
		// (`MetaClient interface{...}`): its specification is keyed by "pkg.Struct.field"
		if u, ok := c.Value.(*ssa.UnOp); ok {
			if fa, ok := u.X.(*ssa.FieldAddr); ok {
				if pt := pointee(fa.X.Type()); pt != nil {
					if su, ok := asStruct(pt); ok {
						name = shortTypeName(pt) + "." + su.Field(fa.Field).Name()
					}
				}
			}
		}
	}
	var args []Val
	for _, a := range c.Args {
		args = append(args, x.val(fr, a))
	}
	// a method call on a nil interface value panics
	// (not checked: the services under contract are wired with non-nil dependencies; the
	// assumption is recorded, and it keeps counterexample models from choosing a nil
	// dependency, which the replay would then "confirm" with a nil-dereference panic)
	if recv.T.Sort == "Iface" && x.inSpec == 0 {
		x.assumed["interface values whose methods are called are non-nil (dependency wiring; nil-interface panics are not checked)"] = true
		x.assumeUnder(st.Guard, mkNot(mkEq(Term{app("i_typ", recv.T), "Int"}, intLit(0))))
	}
	if h, ok := ifaceCalls[name+"."+c.Method.Name()]; ok {
		return h(x, fr, st, site, c, recv, args, rt)
	}
	if is, ok := x.DB.Ifaces[name]; ok {
		if ms, ok := is.Methods[c.Method.Name()]; ok {
			return x.ifaceContractCall(fr, st, site, c, is, ms, recv, args, rt)
		}
	}
	// error.Error() and similar pure observers
	if c.Method.Name() == "Error" && name == "error" {
		x.declUF("errmsg", "(Iface) Str")
		return Val{T: Term{app("errmsg", recv.T), "Str"}, Typ: rt}
	}
	x.assumed[fmt.Sprintf("interface call %s.%s without contract: all heaps havoced, result unconstrained", name, c.Method.Name())] = true
	x.havocAll(st)
	return x.freshResult(fr, st, c.Method.Name(), rt)
}

// ---------- builtins ----------

func (x *Exec) builtin(fr *Frame, st *State, site ssa.Instruction, c *ssa.CallCommon, b *ssa.Builtin, rt types.Type) Val {
	call, _ := site.(*ssa.Call)
	switch b.Name() {
	case "len", "cap":
		a := x.val(fr, c.Args[0])
		switch u := c.Args[0].Type().Underlying().(type) {
		case *types.Slice:
			_, _, ln, cp := x.sliceParts(a.T)
			if b.Name() == "cap" {
				return Val{T: cp, Typ: rt}
			}
			return Val{T: ln, Typ: rt}
		case *types.Basic:
			return Val{T: x.intToIdx(Term{app("strlen", a.T), "Int"}), Typ: rt}
		case *types.Map:
			return Val{T: x.intToIdx(x.mapLen(st, a.T, u)), Typ: rt}
		case *types.Array:
			return Val{T: x.S.IdxLit(u.Len()), Typ: rt}
		case *types.Pointer:
			if arr, ok := u.Elem().Underlying().(*types.Array); ok {
				return Val{T: x.S.IdxLit(arr.Len()), Typ: rt}
			}
		}
		panic(toolErr("len/cap of " + c.Args[0].Type().String()))
	case "append":
		if call == nil {
			panic(toolErr("deferred append"))
		}
		x.builtinAppend(fr, st, call)
		return fr.vals[call]
	case "copy":
		if call == nil {
			panic(toolErr("deferred copy"))
		}
		x.builtinCopy(fr, st, call)
		return fr.vals[call]
	case "delete":
		x.builtinDelete(fr, st, call)
		return Val{Typ: rt}
	case "min", "max":
		a, bb := x.val(fr, c.Args[0]), x.val(fr, c.Args[1])
		t := c.Args[0].Type()
		lt := x.binop(nil, st, 40 /* token.LSS */, a, bb, t, t, types.Typ[types.Bool], nil, 0)
		if b.Name() == "min" {
			return Val{T: mkIte(lt, a.T, bb.T), Typ: rt}
		}
		return Val{T: mkIte(lt, bb.T, a.T), Typ: rt}
	case "print", "println":
		return Val{Typ: rt}
	case "close":
		// channels are abstracted (sends dropped, receives arbitrary): closing one changes
		// nothing that is modelled; closing a nil or closed channel (a panic) is not checked
		x.assumed["close(ch): channels are abstracted; double close / close of nil not checked"] = true
		return Val{Typ: rt}
	case "ssa:wrapnilchk":
		return x.val(fr, c.Args[0])
	case "panic":
		x.oblige("panic", x.safetyName("panic", fr, site, "panic"), st.Guard, tFalse, "explicit panic reachable", site.Pos(), true)
		return Val{Typ: rt}
	case "clear":
		x.builtinClear(fr, st, c)
		return Val{Typ: rt}
	}
	panic(toolErr("unsupported builtin " + b.Name()))
}

// ---------- defers ----------

func (x *Exec) runDefers(fr *Frame, st *State) {
	for i := len(fr.defers) - 1; i >= 0; i-- {
		d := fr.defers[i]
		c := d.call.Common()
		// only the deferred calls registered on this path run
		sub := st.clone()
		sub.Guard = mkAnd(st.Guard, d.guard)
		callee := c.StaticCallee()
		if callee != nil {
			key := FuncKey(callee)
			if strings.HasPrefix(key, "sync.") {
				continue
			}
		}
		if d.guard.S != "true" && d.guard.S != st.Guard.S {
			// conditional defer: execute under its guard and merge
			x.doCall(fr, sub, d.call, c, c.Signature().Results())
			x.mergeInto(st, sub, d.guard)
			continue
		}
		x.doCall(fr, st, d.call, c, c.Signature().Results())
	}
}

// mergeInto sets st to ite(g, sub, st) heap-wise.
func (x *Exec) mergeInto(st, sub *State, g Term) {
	for k, v := range sub.Heaps {
		if cur, ok := st.Heaps[k]; ok && cur.S != v.S {
			st.Heaps[k] = x.defineIfBig(k, mkIte(g, v, cur))
		}
	}
	if sub.Alloc.S != st.Alloc.S {
		st.Alloc = x.defineIfBig("alloc", mkIte(g, sub.Alloc, st.Alloc))
	}
}
