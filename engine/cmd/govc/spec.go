package main

import (
	"fmt"
	"os"
	"path/filepath"
	"sort"
	"strconv"
	"strings"
	"unicode"
)

// ---------- expression AST ----------

type Expr interface{ exprString() string }

type (
	EIdent struct{ Name string }
	EInt   struct{ Val string } // decimal or 0x literal
	EStr   struct{ Val string }
	EBool  struct{ Val bool }
	ENil   struct{}
	EUnary struct {
		Op string
		X  Expr
	}
	EBinary struct {
		Op   string
		X, Y Expr
	}
	EField struct {
		X    Expr
		Name string
	}
	EIndex struct{ X, I Expr }
	ESlice struct{ X, Lo, Hi Expr }
	ECall  struct {
		Fun  string // possibly qualified: pkg.Name or recv method via EMethod
		Args []Expr
	}
	EMethod struct {
		X    Expr
		Name string
		Args []Expr
	}
	EOld   struct{ X Expr }
	EQuant struct {
		Forall bool
		Vars   []Param
		Body   Expr
	}
	ECond       struct{ C, A, B Expr } // ite(c, a, b)
	ETypeAssert struct {
		X    Expr
		Type string
		Test bool // x.is(T) instead of x.(T)
	}
)

func (e ETypeAssert) exprString() string {
	if e.Test {
		return e.X.exprString() + ".is(" + e.Type + ")"
	}
	return e.X.exprString() + ".(" + e.Type + ")"
}

type Param struct {
	Name string
	Type string // Go type text as written
}

func (e EIdent) exprString() string { return e.Name }
func (e EInt) exprString() string   { return e.Val }
func (e EStr) exprString() string   { return fmt.Sprintf("%q", e.Val) }
func (e EBool) exprString() string  { return fmt.Sprint(e.Val) }
func (e ENil) exprString() string   { return "nil" }
func (e EUnary) exprString() string { return e.Op + e.X.exprString() }
func (e EBinary) exprString() string {
	return "(" + e.X.exprString() + " " + e.Op + " " + e.Y.exprString() + ")"
}
func (e EField) exprString() string { return e.X.exprString() + "." + e.Name }
func (e EIndex) exprString() string { return e.X.exprString() + "[" + e.I.exprString() + "]" }
func (e ESlice) exprString() string {
	s := e.X.exprString() + "["
	if e.Lo != nil {
		s += e.Lo.exprString()
	}
	s += ":"
	if e.Hi != nil {
		s += e.Hi.exprString()
	}
	return s + "]"
}
func (e ECall) exprString() string {
	var a []string
	for _, x := range e.Args {
		a = append(a, x.exprString())
	}
	return e.Fun + "(" + strings.Join(a, ", ") + ")"
}
func (e EMethod) exprString() string {
	var a []string
	for _, x := range e.Args {
		a = append(a, x.exprString())
	}
	return e.X.exprString() + "." + e.Name + "(" + strings.Join(a, ", ") + ")"
}
func (e EOld) exprString() string { return "old(" + e.X.exprString() + ")" }
func (e EQuant) exprString() string {
	q := "exists"
	if e.Forall {
		q = "forall"
	}
	var v []string
	for _, p := range e.Vars {
		v = append(v, p.Name+" "+p.Type)
	}
	return "(" + q + " " + strings.Join(v, ", ") + " :: " + e.Body.exprString() + ")"
}
func (e ECond) exprString() string {
	return "ite(" + e.C.exprString() + ", " + e.A.exprString() + ", " + e.B.exprString() + ")"
}

// ---------- lexer ----------

type stok struct {
	kind string // id int str op eof
	text string
}

func lexSpec(s string) ([]stok, error) {
	var out []stok
	i := 0
	ops := []string{"<==>", "==>", "&&", "||", "==", "!=", "<=", ">=", "<<", ">>", "&^", "::", "+", "-", "*", "/", "%", "&", "|", "^", "<", ">", "!", "(", ")", "[", "]", ",", ".", ":", "=", "{", "}"}
	for i < len(s) {
		c := s[i]
		if c == ' ' || c == '\t' || c == '\n' {
			i++
			continue
		}
		if unicode.IsLetter(rune(c)) || c == '_' || c == '$' {
			j := i
			for j < len(s) && (unicode.IsLetter(rune(s[j])) || unicode.IsDigit(rune(s[j])) || s[j] == '_' || s[j] == '$') {
				j++
			}
			out = append(out, stok{"id", s[i:j]})
			i = j
			continue
		}
		if unicode.IsDigit(rune(c)) {
			j := i
			for j < len(s) && (unicode.IsDigit(rune(s[j])) || unicode.IsLetter(rune(s[j])) || s[j] == '_') {
				j++
			}
			out = append(out, stok{"int", strings.ReplaceAll(s[i:j], "_", "")})
			i = j
			continue
		}
		if c == '"' {
			j := i + 1
			for j < len(s) && s[j] != '"' {
				if s[j] == '\\' {
					j++
				}
				j++
			}
			if j >= len(s) {
				return nil, fmt.Errorf("unterminated string in %q", s)
			}
			out = append(out, stok{"str", s[i+1 : j]})
			i = j + 1
			continue
		}
		matched := false
		for _, op := range ops {
			if strings.HasPrefix(s[i:], op) {
				out = append(out, stok{"op", op})
				i += len(op)
				matched = true
				break
			}
		}
		if !matched {
			return nil, fmt.Errorf("unexpected character %q in %q", c, s)
		}
	}
	out = append(out, stok{"eof", ""})
	return out, nil
}

// ---------- parser (precedence climbing) ----------

type specParser struct {
	toks []stok
	pos  int
	src  string
}

func ParseExpr(s string) (e Expr, err error) {
	toks, err := lexSpec(s)
	if err != nil {
		return nil, err
	}
	p := &specParser{toks: toks, src: s}
	defer func() {
		if r := recover(); r != nil {
			if pe, ok := r.(parseErr); ok {
				err = fmt.Errorf("%s in %q", string(pe), s)
				return
			}
			panic(r)
		}
	}()
	e = p.parseTop()
	if p.peek().kind != "eof" {
		p.fail("trailing input at %q", p.peek().text)
	}
	return e, nil
}

type parseErr string

func (p *specParser) fail(f string, a ...interface{}) { panic(parseErr(fmt.Sprintf(f, a...))) }
func (p *specParser) peek() stok                      { return p.toks[p.pos] }
func (p *specParser) next() stok                      { t := p.toks[p.pos]; p.pos++; return t }
func (p *specParser) isOp(s string) bool              { t := p.peek(); return t.kind == "op" && t.text == s }
func (p *specParser) expectOp(s string) {
	if !p.isOp(s) {
		p.fail("expected %q, found %q", s, p.peek().text)
	}
	p.pos++
}

func (p *specParser) parseTop() Expr { return p.parseIff() }

func (p *specParser) parseIff() Expr {
	x := p.parseImp()
	for p.isOp("<==>") {
		p.next()
		y := p.parseImp()
		x = EBinary{"<==>", x, y}
	}
	return x
}

func (p *specParser) parseImp() Expr {
	x := p.parseOr()
	if p.isOp("==>") {
		p.next()
		y := p.parseImp() // right associative
		return EBinary{"==>", x, y}
	}
	return x
}

func (p *specParser) parseOr() Expr {
	x := p.parseAnd()
	for p.isOp("||") {
		p.next()
		x = EBinary{"||", x, p.parseAnd()}
	}
	return x
}

func (p *specParser) parseAnd() Expr {
	x := p.parseCmp()
	for p.isOp("&&") {
		p.next()
		x = EBinary{"&&", x, p.parseCmp()}
	}
	return x
}

func (p *specParser) parseCmp() Expr {
	x := p.parseAdd()
	for {
		t := p.peek()
		if t.kind == "op" && (t.text == "==" || t.text == "!=" || t.text == "<" || t.text == "<=" || t.text == ">" || t.text == ">=") {
			p.next()
			x = EBinary{t.text, x, p.parseAdd()}
			continue
		}
		return x
	}
}

func (p *specParser) parseAdd() Expr {
	x := p.parseMul()
	for {
		t := p.peek()
		if t.kind == "op" && (t.text == "+" || t.text == "-" || t.text == "|" || t.text == "^") {
			p.next()
			x = EBinary{t.text, x, p.parseMul()}
			continue
		}
		return x
	}
}

func (p *specParser) parseMul() Expr {
	x := p.parseUnary()
	for {
		t := p.peek()
		if t.kind == "op" && (t.text == "*" || t.text == "/" || t.text == "%" || t.text == "&" || t.text == "<<" || t.text == ">>" || t.text == "&^") {
			p.next()
			x = EBinary{t.text, x, p.parseUnary()}
			continue
		}
		return x
	}
}

func (p *specParser) parseUnary() Expr {
	t := p.peek()
	if t.kind == "op" && (t.text == "!" || t.text == "-" || t.text == "*" || t.text == "^") {
		p.next()
		return EUnary{t.text, p.parseUnary()}
	}
	if t.kind == "id" && (t.text == "forall" || t.text == "exists") {
		p.next()
		var vars []Param
		for {
			var names []string
			for {
				n := p.next()
				if n.kind != "id" {
					p.fail("expected bound variable name, found %q", n.text)
				}
				names = append(names, n.text)
				if p.isOp(",") {
					// could be "i, j int" or end of group "i int, j int64"
					p.next()
					continue
				}
				break
			}
			ty := p.parseTypeText()
			// names collected before the type all get it; but "i int, j int64" arrives as
			// names=[i] type=int then loop again.
			for _, n := range names {
				vars = append(vars, Param{n, ty})
			}
			if p.isOp(",") {
				p.next()
				continue
			}
			break
		}
		p.expectOp("::")
		body := p.parseTop()
		return EQuant{t.text == "forall", vars, body}
	}
	return p.parsePostfix()
}

// parseTypeText reads a Go type as written: identifiers, dots, [], *, and
// bracketed type arguments.
func (p *specParser) parseTypeText() string {
	var b strings.Builder
	for {
		t := p.peek()
		if t.kind == "op" && (t.text == "*" || t.text == "[" || t.text == "]" || t.text == ".") {
			b.WriteString(t.text)
			p.next()
			continue
		}
		if t.kind == "id" {
			b.WriteString(t.text)
			p.next()
			if p.isOp(".") {
				continue
			}
			break
		}
		if t.kind == "int" { // array length
			b.WriteString(t.text)
			p.next()
			continue
		}
		break
	}
	if b.Len() == 0 {
		p.fail("expected a type, found %q", p.peek().text)
	}
	return b.String()
}

func (p *specParser) parseArgs() []Expr {
	var args []Expr
	if p.isOp(")") {
		p.next()
		return args
	}
	for {
		args = append(args, p.parseTop())
		if p.isOp(",") {
			p.next()
			continue
		}
		p.expectOp(")")
		return args
	}
}

func (p *specParser) parsePostfix() Expr {
	x := p.parsePrimary()
	for {
		switch {
		case p.isOp("."):
			p.next()
			if p.isOp("(") {
				// x.(T): the value of dynamic type T inside the interface value x
				p.next()
				ty := p.parseTypeText()
				p.expectOp(")")
				x = ETypeAssert{x, ty, false}
				continue
			}
			n := p.next()
			if n.kind != "id" {
				p.fail("expected field name after '.', found %q", n.text)
			}
			if n.text == "is" && p.isOp("(") {
				// x.is(T): the dynamic type of the interface value x is T
				p.next()
				ty := p.parseTypeText()
				p.expectOp(")")
				x = ETypeAssert{x, ty, true}
				continue
			}
			if p.isOp("(") {
				p.next()
				args := p.parseArgs()
				// pkg.Func(...) where x is a bare identifier that is not a variable is
				// resolved at evaluation time; keep as method node.
				x = EMethod{x, n.text, args}
			} else {
				x = EField{x, n.text}
			}
		case p.isOp("["):
			p.next()
			var lo, hi Expr
			if p.isOp(":") {
				p.next()
				if !p.isOp("]") {
					hi = p.parseTop()
				}
				p.expectOp("]")
				x = ESlice{x, nil, hi}
				continue
			}
			lo = p.parseTop()
			if p.isOp(":") {
				p.next()
				if !p.isOp("]") {
					hi = p.parseTop()
				}
				p.expectOp("]")
				x = ESlice{x, lo, hi}
				continue
			}
			p.expectOp("]")
			x = EIndex{x, lo}
		default:
			return x
		}
	}
}

func (p *specParser) parsePrimary() Expr {
	t := p.next()
	switch t.kind {
	case "int":
		return EInt{t.text}
	case "str":
		return EStr{t.text}
	case "id":
		switch t.text {
		case "true":
			return EBool{true}
		case "false":
			return EBool{false}
		case "nil":
			return ENil{}
		case "old":
			if !p.isOp("(") {
				break // a variable that happens to be called "old"
			}
			p.expectOp("(")
			x := p.parseTop()
			p.expectOp(")")
			return EOld{x}
		case "ite":
			p.expectOp("(")
			c := p.parseTop()
			p.expectOp(",")
			a := p.parseTop()
			p.expectOp(",")
			b := p.parseTop()
			p.expectOp(")")
			return ECond{c, a, b}
		}
		if p.isOp("(") {
			p.next()
			return ECall{t.text, p.parseArgs()}
		}
		return EIdent{t.text}
	case "op":
		if t.text == "(" {
			x := p.parseTop()
			p.expectOp(")")
			return x
		}
	}
	p.fail("unexpected %q", t.text)
	return nil
}

// ---------- contract files ----------

type Clause struct {
	Text string
	E    Expr
	Name string // optional label: "ensures [label] expr"
	At   string // return-statement anchor (source snippet)
	AtN  int    // which of the matching returns (0 = all)
}

// AtomicSpec is a rely/guarantee pair for one shared cell accessed through
// sync/atomic. Rely speaks about "v" (a value read); Guarantee about "cur" and
// "new"; AddAssume is an ASSUMED (unchecked, reported) condition on the value an
// atomic add finds.
type AtomicSpec struct {
	Key       string
	Rely      *Clause
	Guarantee *Clause
	AddAssume *Clause
}

type WitnessBinding struct {
	Name string
	E    Expr
	Text string
}

type LoopSpec struct {
	Ordinal      int
	Anchors      []string
	Invariants   []Clause
	Passes       []string          // bind names: every iteration that goes round the loop passes these program points
	PassesUnless map[string]Clause // bind name -> condition under which an iteration may skip that point
	Decreases    *Clause
	Modifies     []ModTarget // loop frame: only these cells change in the loop (function-level modifies must precede loop clauses)
	ModGiven     bool
}

type ModTarget struct {
	Text string
	E    Expr // a.f  or  a.f[*] (EIndex with I == EIdent{"*"})
}

type Contract struct {
	Key          string // function key as written (relative to the package of the file)
	Pkg          string // import path of the package whose directory holds the file
	File         string
	Properties   []string
	Mode         Mode
	ModeSet      bool
	Requires     []Clause
	Ensures      []Clause
	Asserts      []Clause // proved at a program point (source-line anchor)
	Binds        []Clause // ghost names bound to the value of an expression at a program point
	Modifies     []ModTarget
	ModNothing   bool
	ModGiven     bool
	Inline       bool
	Trusted      bool
	MayPanic     bool
	Case         string // non-empty: an additional contract ("func Key #case") for a function that has a plain one
	NoSafety     bool   // skip implicit panic obligations (stated in evidence)
	Interference bool   // acquiring a mutex havocs the fields it guards (other goroutines ran)
	AssumePre    bool   // callee preconditions are assumed, not proved, in this function (stated in evidence)
	Wraps        bool   // signed +,- wrap exactly (no overflow obligations)
	Pure         bool   // (assumed contracts) deterministic function of the argument values
	Atomics      []*AtomicSpec
	Witness      map[string][]WitnessBinding // ensures label -> witnesses for its existentials
	Loops        []*LoopSpec
	Ghost        []Param // ghost parameters (lemma-style universally quantified inputs)
	Line         int
}

type Pred struct {
	Name   string
	Params []Param
	Body   Expr
	Text   string
	Pkg    string
}

type Lemma struct {
	Name       string
	Pkg        string
	File       string
	Properties []string
	Mode       Mode
	Vars       []Param
	Requires   []Clause
	Ensures    []Clause
}

type IfaceMethodSpec struct {
	Name     string
	Requires []Clause
	Ensures  []Clause
	Modifies []string // ghost fields modified
	Pure     bool
}

type IfaceSpec struct {
	Name    string // qualified interface type name, e.g. io.Reader
	Pkg     string
	Ghost   []Param
	Methods map[string]*IfaceMethodSpec
}

type SpecDB struct {
	Contracts map[string]*Contract // full key
	Preds     map[string]*Pred
	UFs       map[string]*UFDecl
	Guards    map[string]string // "T.field" -> name of the mutex field of T that guards it
	Lemmas    map[string]*Lemma
	Ifaces    map[string]*IfaceSpec
	Files     []string
	Assumed   []string // names of assumed/trusted contracts, for the assumption scan
}

// UFDecl is an uninterpreted specification function.
type UFDecl struct {
	Name   string
	Params []Param
	Ret    string
	Pkg    string
}

var clauseKeywords = map[string]bool{"ghoststruct": true, "guarded": true, "uf": true, "pred": true, "func": true, "lemma": true, "interface": true, "property": true, "mode": true,
	"requires": true, "ensures": true, "assert": true, "bind": true, "modifies": true, "inline": true, "trusted": true, "loop": true, "invariant": true,
	"decreases": true, "passes": true, "maypanic": true, "forall": false, "ghost": true, "method": true, "assume": true, "vars": true, "nosafety": true, "assumepre": true, "interference": true, "pure": true, "witness": true, "wraps": true,
	"atomic": true, "rely": true, "guarantee": true, "addassume": true}

// LoadSpecs reads every verif_contracts.go under the repo plus the assumed
// contracts under /verif/contracts/assumed.
func LoadSpecs(repo string, pkgDirs []string, assumedDir string) (*SpecDB, error) {
	db := &SpecDB{Contracts: map[string]*Contract{}, Preds: map[string]*Pred{}, Lemmas: map[string]*Lemma{}, Ifaces: map[string]*IfaceSpec{}, UFs: map[string]*UFDecl{}, Guards: map[string]string{}}
	for _, d := range pkgDirs {
		dir := filepath.Join(repo, d)
		matches, _ := filepath.Glob(filepath.Join(dir, "verif_contracts*.go"))
		sort.Strings(matches)
		for _, f := range matches {
			pkg := modulePath
			if d != "." && d != "" {
				pkg = modulePath + "/" + d
			}
			if err := db.loadFile(f, pkg, false); err != nil {
				return nil, err
			}
		}
	}
	if assumedDir != "" {
		matches, _ := filepath.Glob(filepath.Join(assumedDir, "*.spec"))
		sort.Strings(matches)
		for _, f := range matches {
			if err := db.loadFile(f, "", true); err != nil {
				return nil, err
			}
		}
	}
	return db, nil
}

func (db *SpecDB) loadFile(path, pkg string, assumed bool) error {
	data, err := os.ReadFile(path)
	if err != nil {
		return err
	}
	db.Files = append(db.Files, path)
	// Gather logical clauses: a //@ line starting with a keyword begins a clause;
	// other //@ lines continue the previous one.
	type rawClause struct {
		kw, rest string
		line     int
	}
	var raws []rawClause
	for i, ln := range expandTemplates(strings.Split(string(data), "\n")) {
		t := strings.TrimSpace(ln)
		if !strings.HasPrefix(t, "//@") {
			continue
		}
		body := strings.TrimSpace(strings.TrimPrefix(t, "//@"))
		if body == "" {
			continue
		}
		// strip trailing comment
		if k := strings.Index(body, " // "); k >= 0 {
			body = strings.TrimSpace(body[:k])
		}
		first := body
		if k := strings.IndexAny(body, " \t"); k >= 0 {
			first = body[:k]
		}
		if clauseKeywords[first] {
			raws = append(raws, rawClause{first, strings.TrimSpace(body[len(first):]), i + 1})
		} else if len(raws) > 0 {
			raws[len(raws)-1].rest += " " + body
		} else {
			return fmt.Errorf("%s:%d: continuation without a clause", path, i+1)
		}
	}
	var curC *Contract
	var curL *Lemma
	var curLoop *LoopSpec
	var curI *IfaceSpec
	var curM *IfaceMethodSpec
	mkClause := func(rc rawClause) (Clause, error) {
		txt := rc.rest
		name := ""
		if strings.HasPrefix(txt, "[") {
			// the label ends at the bracket that closes the opening one (anchors may
			// contain balanced brackets: [l @ p.store[key] = e]); if the brackets of the
			// label are not balanced, at the first closing bracket as before
			k, depth := -1, 0
			for i, c := range txt {
				if c == '[' {
					depth++
				} else if c == ']' {
					depth--
					if depth == 0 {
						k = i
						break
					}
				}
			}
			if k < 0 || !strings.Contains(txt[:k], "@") {
				k = strings.Index(txt, "]")
			}
			if k > 0 {
				name = txt[1:k]
				txt = strings.TrimSpace(txt[k+1:])
			}
		}
		// "[label @ snippet #n]": the clause speaks about the return statement(s)
		// whose source line contains snippet (the n-th such, if given); it may
		// mention the function's local variables as they are at that return.
		at, atN := "", 0
		if k := strings.Index(name, "@"); k >= 0 {
			at = strings.TrimSpace(name[k+1:])
			name = strings.TrimSpace(name[:k])
			if h := strings.LastIndex(at, "#"); h >= 0 {
				if n, err := strconv.Atoi(strings.TrimSpace(at[h+1:])); err == nil {
					atN = n
					at = strings.TrimSpace(at[:h])
				}
			}
		}
		e, err := ParseExpr(txt)
		if err != nil {
			return Clause{}, fmt.Errorf("%s:%d: %v", path, rc.line, err)
		}
		return Clause{Text: txt, E: e, Name: name, At: at, AtN: atN}, nil
	}
	for _, rc := range raws {
		switch rc.kw {
		case "guarded":
			// guarded T.f, T.g by T.mu
			parts := strings.SplitN(rc.rest, " by ", 2)
			if len(parts) != 2 {
				return fmt.Errorf("%s:%d: guarded needs 'fields by T.mu'", path, rc.line)
			}
			mu := strings.TrimSpace(parts[1])
			if k := strings.LastIndex(mu, "."); k >= 0 {
				mu = mu[k+1:]
			}
			for _, f := range strings.Split(parts[0], ",") {
				db.Guards[strings.TrimSpace(f)] = mu
			}
			curC, curL, curLoop, curI, curM = nil, nil, nil, nil, nil
		case "uf":
			// uf name(params) rettype : an uninterpreted specification function; slice
			// parameters are passed by content (backing array, offset, length)
			op := strings.Index(rc.rest, "(")
			cp := strings.LastIndex(rc.rest, ")")
			if op < 0 || cp < op {
				return fmt.Errorf("%s:%d: bad uf declaration", path, rc.line)
			}
			params, err := parseParams(rc.rest[op+1 : cp])
			if err != nil {
				return fmt.Errorf("%s:%d: %v", path, rc.line, err)
			}
			name := strings.TrimSpace(rc.rest[:op])
			db.UFs[name] = &UFDecl{Name: name, Params: params, Ret: strings.TrimSpace(rc.rest[cp+1:]), Pkg: pkg}
			curC, curL, curLoop, curI, curM = nil, nil, nil, nil, nil
		case "pred":
			// name(params) = expr
			eq := strings.Index(rc.rest, "=")
			// find the '=' that follows the closing paren of the parameter list
			cp := strings.Index(rc.rest, ")")
			if cp < 0 {
				return fmt.Errorf("%s:%d: bad pred", path, rc.line)
			}
			eq = cp + 1 + strings.Index(rc.rest[cp+1:], "=")
			head := strings.TrimSpace(rc.rest[:cp+1])
			op := strings.Index(head, "(")
			name := strings.TrimSpace(head[:op])
			params, err := parseParams(head[op+1 : len(head)-1])
			if err != nil {
				return fmt.Errorf("%s:%d: %v", path, rc.line, err)
			}
			body := strings.TrimSpace(rc.rest[eq+1:])
			e, err := ParseExpr(body)
			if err != nil {
				return fmt.Errorf("%s:%d: %v", path, rc.line, err)
			}
			db.Preds[name] = &Pred{Name: name, Params: params, Body: e, Text: body, Pkg: pkg}
			curC, curL, curLoop, curI, curM = nil, nil, nil, nil, nil
		case "func", "assume":
			key := rc.rest
			if rc.kw == "assume" {
				key = strings.TrimSpace(strings.TrimPrefix(key, "func"))
			}
			// "func Key #case": a further contract for the same function, verified on its own
			// (e.g. under a different precondition); callers only ever see the plain one
			caseName := ""
			if h := strings.LastIndex(key, " #"); h > 0 {
				caseName = strings.TrimSpace(key[h+2:])
				key = strings.TrimSpace(key[:h])
			}
			c := &Contract{Key: key, Pkg: pkg, File: path, Line: rc.line, Case: caseName}
			full := key
			if pkg != "" {
				full = pkg + "." + key
			}
			if caseName != "" {
				full += "#" + caseName
			}
			if rc.kw == "assume" || assumed {
				c.Trusted = true
			}
			if _, dup := db.Contracts[full]; dup {
				return fmt.Errorf("%s:%d: duplicate contract for %s", path, rc.line, full)
			}
			db.Contracts[full] = c
			curC, curL, curLoop, curI, curM = c, nil, nil, nil, nil
		case "lemma":
			l := &Lemma{Name: rc.rest, Pkg: pkg, File: path}
			db.Lemmas[l.Name] = l
			curC, curL, curLoop, curI, curM = nil, l, nil, nil, nil
		case "ghoststruct":
			// ghost fields on objects of a named struct type (reached through pointers)
			it := &IfaceSpec{Name: "struct:" + rc.rest, Pkg: pkg, Methods: map[string]*IfaceMethodSpec{}}
			db.Ifaces[it.Name] = it
			curC, curL, curLoop, curI, curM = nil, nil, nil, it, nil
		case "interface":
			it, exists := db.Ifaces[rc.rest]
			if !exists {
				// a second block for the same interface adds to the first (methods, ghost fields)
				it = &IfaceSpec{Name: rc.rest, Pkg: pkg, Methods: map[string]*IfaceMethodSpec{}}
				db.Ifaces[it.Name] = it
			}
			curC, curL, curLoop, curI, curM = nil, nil, nil, it, nil
		case "ghost":
			ps, err := parseParams(rc.rest)
			if err != nil {
				return fmt.Errorf("%s:%d: %v", path, rc.line, err)
			}
			if curI != nil {
				curI.Ghost = append(curI.Ghost, ps...)
			} else if curC != nil {
				curC.Ghost = append(curC.Ghost, ps...)
			}
		case "method":
			if curI == nil {
				return fmt.Errorf("%s:%d: method outside interface", path, rc.line)
			}
			m := &IfaceMethodSpec{Name: rc.rest}
			curI.Methods[m.Name] = m
			curM = m
		case "pure":
			if curM != nil {
				curM.Pure = true
			} else if curC != nil {
				curC.Pure = true
			}
		case "property":
			var ids []string
			for _, f := range strings.FieldsFunc(rc.rest, func(r rune) bool { return r == ',' || r == ' ' }) {
				ids = append(ids, f)
			}
			if curC != nil {
				curC.Properties = ids
			} else if curL != nil {
				curL.Properties = ids
			}
		case "mode":
			m := ModeInt
			if rc.rest == "bv" {
				m = ModeBV
			} else if rc.rest != "int" {
				return fmt.Errorf("%s:%d: mode must be int or bv", path, rc.line)
			}
			if curC != nil {
				curC.Mode, curC.ModeSet = m, true
			} else if curL != nil {
				curL.Mode = m
			}
		case "vars":
			if curL == nil {
				return fmt.Errorf("%s:%d: vars outside lemma", path, rc.line)
			}
			ps, err := parseParams(rc.rest)
			if err != nil {
				return fmt.Errorf("%s:%d: %v", path, rc.line, err)
			}
			curL.Vars = append(curL.Vars, ps...)
		case "bind":
			// "bind [G @ source snippet #n] expr": the ghost name G denotes, from the point
			// where execution reaches the first instruction of that line, the value expr has
			// there (a way to remember a local's value for later clauses)
			cl, err := mkClause(rc)
			if err != nil {
				return err
			}
			if curC == nil || cl.At == "" || cl.Name == "" {
				return fmt.Errorf("%s:%d: bind needs a func, a name and an anchor [G @ snippet]", path, rc.line)
			}
			curC.Binds = append(curC.Binds, cl)
		case "assert":
			// "assert [label @ source snippet #n] expr": proved where execution reaches the
			// first instruction of a source line containing the snippet
			cl, err := mkClause(rc)
			if err != nil {
				return err
			}
			if curC == nil || cl.At == "" {
				return fmt.Errorf("%s:%d: assert needs a func and an anchor [label @ snippet]", path, rc.line)
			}
			curC.Asserts = append(curC.Asserts, cl)
		case "requires", "ensures":
			cl, err := mkClause(rc)
			if err != nil {
				return err
			}
			switch {
			case curM != nil:
				if rc.kw == "requires" {
					curM.Requires = append(curM.Requires, cl)
				} else {
					curM.Ensures = append(curM.Ensures, cl)
				}
			case curC != nil:
				if rc.kw == "requires" {
					curC.Requires = append(curC.Requires, cl)
				} else {
					curC.Ensures = append(curC.Ensures, cl)
				}
			case curL != nil:
				if rc.kw == "requires" {
					curL.Requires = append(curL.Requires, cl)
				} else {
					curL.Ensures = append(curL.Ensures, cl)
				}
			default:
				return fmt.Errorf("%s:%d: %s outside func/lemma", path, rc.line, rc.kw)
			}
		case "modifies":
			if curM != nil {
				for _, f := range strings.Split(rc.rest, ",") {
					curM.Modifies = append(curM.Modifies, strings.TrimSpace(f))
				}
				continue
			}
			if curC == nil {
				return fmt.Errorf("%s:%d: modifies outside func", path, rc.line)
			}
			if curLoop != nil {
				curLoop.ModGiven = true
			} else {
				curC.ModGiven = true
			}
			if rc.rest == "nothing" {
				if curLoop == nil {
					curC.ModNothing = true
				}
				continue
			}
			for _, part := range splitTopLevel(rc.rest, ',') {
				part = strings.TrimSpace(part)
				star := false
				if strings.HasSuffix(part, "[*]") {
					star = true
					part = strings.TrimSuffix(part, "[*]")
				}
				e, err := ParseExpr(part)
				if err != nil {
					return fmt.Errorf("%s:%d: %v", path, rc.line, err)
				}
				if star {
					e = EIndex{e, EIdent{"*"}}
				}
				if curLoop != nil {
					curLoop.Modifies = append(curLoop.Modifies, ModTarget{Text: part, E: e})
				} else {
					curC.Modifies = append(curC.Modifies, ModTarget{Text: part, E: e})
				}
			}
		case "inline":
			if curC != nil {
				curC.Inline = true
			}
		case "trusted":
			if curC != nil {
				curC.Trusted = true
			}
		case "maypanic":
			if curC != nil {
				curC.MayPanic = true
			}
		case "nosafety":
			if curC != nil {
				curC.NoSafety = true
			}
		case "assumepre":
			if curC != nil {
				curC.AssumePre = true
			}
		case "interference":
			if curC != nil {
				curC.Interference = true
			}
		case "wraps":
			if curC != nil {
				curC.Wraps = true
			}
		case "atomic":
			// atomic <Struct>.<field>: the cell is shared; reads obey "rely", writes by
			// this function must establish "guarantee" (cur = value replaced, new = value written)
			if curC == nil {
				return fmt.Errorf("%s:%d: atomic outside func", path, rc.line)
			}
			curC.Atomics = append(curC.Atomics, &AtomicSpec{Key: strings.TrimSpace(rc.rest)})
		case "rely", "guarantee", "addassume":
			if curC == nil || len(curC.Atomics) == 0 {
				return fmt.Errorf("%s:%d: %s outside atomic", path, rc.line, rc.kw)
			}
			cl, err := mkClause(rc)
			if err != nil {
				return err
			}
			as := curC.Atomics[len(curC.Atomics)-1]
			switch rc.kw {
			case "rely":
				as.Rely = &cl
			case "guarantee":
				as.Guarantee = &cl
			default:
				as.AddAssume = &cl
			}
		case "witness":
			// witness <label> L = expr, R = expr
			if curC == nil {
				return fmt.Errorf("%s:%d: witness outside func", path, rc.line)
			}
			f := strings.SplitN(rc.rest, " ", 2)
			if len(f) != 2 {
				return fmt.Errorf("%s:%d: witness needs a label and bindings", path, rc.line)
			}
			if curC.Witness == nil {
				curC.Witness = map[string][]WitnessBinding{}
			}
			for _, part := range splitTopLevel(f[1], ',') {
				kv := strings.SplitN(part, "=", 2)
				if len(kv) != 2 {
					return fmt.Errorf("%s:%d: bad witness binding %q", path, rc.line, part)
				}
				e, err := ParseExpr(strings.TrimSpace(kv[1]))
				if err != nil {
					return fmt.Errorf("%s:%d: %v", path, rc.line, err)
				}
				curC.Witness[f[0]] = append(curC.Witness[f[0]], WitnessBinding{Name: strings.TrimSpace(kv[0]), E: e, Text: strings.TrimSpace(kv[1])})
			}
		case "loop":
			if curC == nil {
				return fmt.Errorf("%s:%d: loop outside func", path, rc.line)
			}
			ls := &LoopSpec{}
			rest := rc.rest
			if k := strings.Index(rest, "("); k >= 0 {
				anch := strings.TrimSuffix(strings.TrimSpace(rest[k+1:]), ")")
				for _, a := range strings.Split(anch, ",") {
					if a = strings.TrimSpace(a); a != "" {
						ls.Anchors = append(ls.Anchors, a)
					}
				}
				rest = strings.TrimSpace(rest[:k])
			}
			fmt.Sscanf(rest, "%d", &ls.Ordinal)
			curC.Loops = append(curC.Loops, ls)
			curLoop = ls
		case "invariant":
			if curLoop == nil {
				return fmt.Errorf("%s:%d: invariant outside loop", path, rc.line)
			}
			cl, err := mkClause(rc)
			if err != nil {
				return err
			}
			curLoop.Invariants = append(curLoop.Invariants, cl)
		case "passes":
			if curLoop == nil {
				return fmt.Errorf("%s:%d: passes outside loop", path, rc.line)
			}
			// "passes G unless e": an iteration may go round without passing G's point
			// only if e holds on that back edge (e may name binds and function-level locals)
			if k := strings.Index(rc.rest, " unless "); k >= 0 {
				n := strings.TrimSpace(rc.rest[:k])
				urc := rc
				urc.rest = strings.TrimSpace(rc.rest[k+len(" unless "):])
				cl, err := mkClause(urc)
				if err != nil {
					return err
				}
				curLoop.Passes = append(curLoop.Passes, n)
				if curLoop.PassesUnless == nil {
					curLoop.PassesUnless = map[string]Clause{}
				}
				curLoop.PassesUnless[n] = cl
				break
			}
			for _, n := range strings.Split(rc.rest, ",") {
				if n = strings.TrimSpace(n); n != "" {
					curLoop.Passes = append(curLoop.Passes, n)
				}
			}
		case "decreases":
			if curLoop == nil {
				return fmt.Errorf("%s:%d: decreases outside loop", path, rc.line)
			}
			cl, err := mkClause(rc)
			if err != nil {
				return err
			}
			curLoop.Decreases = &cl
		}
	}
	return nil
}

func splitTopLevel(s string, sep rune) []string {
	var out []string
	depth := 0
	last := 0
	for i, r := range s {
		switch r {
		case '(', '[':
			depth++
		case ')', ']':
			depth--
		default:
			if r == sep && depth == 0 {
				out = append(out, s[last:i])
				last = i + 1
			}
		}
	}
	out = append(out, s[last:])
	return out
}

func parseParams(s string) ([]Param, error) {
	var out []Param
	var pending []string
	for _, part := range splitTopLevel(s, ',') {
		part = strings.TrimSpace(part)
		if part == "" {
			continue
		}
		f := strings.Fields(part)
		if len(f) == 1 {
			pending = append(pending, f[0])
			continue
		}
		ty := strings.Join(f[1:], "")
		for _, n := range pending {
			out = append(out, Param{n, ty})
		}
		pending = nil
		out = append(out, Param{f[0], ty})
	}
	if len(pending) > 0 {
		return nil, fmt.Errorf("parameter(s) %v without a type", pending)
	}
	return out, nil
}

// expandTemplates duplicates the lines between "//@ template T A B C" and
// "//@ end" once per listed value, replacing {T} (and {t}: lower-cased; and
// {T:elem}: the Go element type of the generated array kinds). Every instance
// is verified on its own; none is assumed from another.
func expandTemplates(lines []string) []string {
	var out []string
	for i := 0; i < len(lines); i++ {
		t := strings.TrimSpace(lines[i])
		if strings.HasPrefix(t, "//@ template ") {
			f := strings.Fields(strings.TrimPrefix(t, "//@ template "))
			if len(f) < 2 {
				out = append(out, lines[i])
				continue
			}
			name, vals := f[0], f[1:]
			var block []string
			j := i + 1
			for ; j < len(lines); j++ {
				if strings.TrimSpace(lines[j]) == "//@ end" {
					break
				}
				block = append(block, lines[j])
			}
			for _, v := range vals {
				// a value may be a tuple a:b:c -> {T} = a, {T.1} = b, {T.2} = c ...
				parts := strings.Split(v, ":")
				v = parts[0]
				for _, b := range block {
					for pi := len(parts) - 1; pi >= 1; pi-- {
						b = strings.ReplaceAll(b, fmt.Sprintf("{%s.%d}", name, pi), parts[pi])
					}
					b = strings.ReplaceAll(b, "{"+name+"}", v)
					b = strings.ReplaceAll(b, "{"+strings.ToLower(name)+"}", strings.ToLower(v))
					b = strings.ReplaceAll(b, "{"+name+":elem}", templElem[v])
					out = append(out, b)
				}
			}
			// keep line numbering roughly aligned is not needed; continue after "end"
			i = j
			continue
		}
		out = append(out, lines[i])
	}
	return out
}

var templElem = map[string]string{"Float": "float64", "Integer": "int64", "Unsigned": "uint64", "String": "string", "Boolean": "bool"}
