package main

import (
	"fmt"
	"go/types"
	"math/big"
	"sort"
	"strings"
)

// Mode says how Go integers are modelled in one function's obligations.
type Mode int

const (
	ModeInt Mode = iota // mathematical Int with range assumptions and overflow obligations
	ModeBV              // fixed-width bit-vectors, machine operators
)

func (m Mode) String() string {
	if m == ModeBV {
		return "bv"
	}
	return "int"
}

// Term is an SMT-LIB term with its sort.
type Term struct {
	S    string
	Sort string
}

func (t Term) String() string { return t.S }

func app(op string, args ...Term) string {
	var b strings.Builder
	b.WriteString("(")
	b.WriteString(op)
	for _, a := range args {
		b.WriteString(" ")
		b.WriteString(a.S)
	}
	b.WriteString(")")
	return b.String()
}

var (
	tTrue  = Term{"true", "Bool"}
	tFalse = Term{"false", "Bool"}
)

func mkBool(b bool) Term {
	if b {
		return tTrue
	}
	return tFalse
}

func mkAnd(ts ...Term) Term {
	var keep []Term
	for _, t := range ts {
		if t.S == "true" {
			continue
		}
		if t.S == "false" {
			return tFalse
		}
		keep = append(keep, t)
	}
	if len(keep) == 0 {
		return tTrue
	}
	if len(keep) == 1 {
		return keep[0]
	}
	return Term{app("and", keep...), "Bool"}
}

func mkOr(ts ...Term) Term {
	var keep []Term
	for _, t := range ts {
		if t.S == "false" {
			continue
		}
		if t.S == "true" {
			return tTrue
		}
		keep = append(keep, t)
	}
	if len(keep) == 0 {
		return tFalse
	}
	if len(keep) == 1 {
		return keep[0]
	}
	return Term{app("or", keep...), "Bool"}
}

func mkNot(t Term) Term {
	if t.S == "true" {
		return tFalse
	}
	if t.S == "false" {
		return tTrue
	}
	return Term{app("not", t), "Bool"}
}

func mkImp(a, b Term) Term {
	if a.S == "true" {
		return b
	}
	if a.S == "false" || b.S == "true" {
		return tTrue
	}
	return Term{app("=>", a, b), "Bool"}
}

func mkEq(a, b Term) Term {
	if a.S == b.S {
		return tTrue
	}
	return Term{app("=", a, b), "Bool"}
}

func mkIte(c, a, b Term) Term {
	if c.S == "true" {
		return a
	}
	if c.S == "false" {
		return b
	}
	if a.S == b.S {
		return a
	}
	return Term{app("ite", c, a, b), a.Sort}
}

func mkSelect(arr, idx Term, elemSort string) Term {
	return Term{app("select", arr, idx), elemSort}
}

func mkStore(arr, idx, v Term) Term {
	return Term{app("store", arr, idx, v), arr.Sort}
}

func intLit(n int64) Term {
	if n < 0 {
		return Term{fmt.Sprintf("(- %d)", -n), "Int"}
	}
	return Term{fmt.Sprintf("%d", n), "Int"}
}

func bigLit(n *big.Int) Term {
	if n.Sign() < 0 {
		return Term{"(- " + new(big.Int).Neg(n).String() + ")", "Int"}
	}
	return Term{n.String(), "Int"}
}

func bvSort(w int) string { return fmt.Sprintf("(_ BitVec %d)", w) }

func bvLit(n *big.Int, w int) Term {
	m := new(big.Int).Lsh(big.NewInt(1), uint(w))
	v := new(big.Int).Mod(n, m)
	return Term{fmt.Sprintf("(_ bv%s %d)", v.String(), w), bvSort(w)}
}

func arraySort(idx, elem string) string { return "(Array " + idx + " " + elem + ")" }

// sanitize makes a string usable inside an SMT simple symbol.
func sanitize(s string) string {
	var b strings.Builder
	for _, r := range s {
		switch {
		case r >= 'a' && r <= 'z', r >= 'A' && r <= 'Z', r >= '0' && r <= '9', r == '_', r == '$', r == '.':
			b.WriteRune(r)
		default:
			b.WriteString("_")
		}
	}
	return b.String()
}

// Sorts owns the per-function SMT signature: sorts for Go types, heap names,
// string constants. Everything it declares goes into the preamble of every
// query of the function.
type Sorts struct {
	mode        Mode
	decls       []string
	declared    map[string]bool
	structNames map[string]string // types.TypeString -> sort
	structTypes map[string]*types.Struct
	strConsts   map[string]string
	strOrder    []string
	heaps       map[string]string // heap name -> sort
	heapOrder   []string
	fresh       int
	typeIDs     map[string]int
	uf          map[string]bool
	sentinels   map[string]int
}

func NewSorts(mode Mode) *Sorts {
	s := &Sorts{mode: mode, declared: map[string]bool{}, structNames: map[string]string{}, structTypes: map[string]*types.Struct{},
		strConsts: map[string]string{}, heaps: map[string]string{}, typeIDs: map[string]int{}, uf: map[string]bool{}, sentinels: map[string]int{}}
	s.decls = append(s.decls,
		"(declare-sort Str 0)",
		"(declare-fun strlen (Str) Int)",
		fmt.Sprintf("(declare-datatypes ((Slice 0)) (((mk_slice (s_ref Int) (s_off %s) (s_len %s) (s_cap %s)))))", s.Idx(), s.Idx(), s.Idx()),
		"(declare-datatypes ((Iface 0)) (((mk_iface (i_typ Int) (i_val Int)))))",
	)
	return s
}

// Idx is the sort of Go's int (slice indices, lengths).
func (s *Sorts) Idx() string {
	if s.mode == ModeBV {
		return bvSort(64)
	}
	return "Int"
}

func (s *Sorts) IdxLit(n int64) Term {
	if s.mode == ModeBV {
		return bvLit(big.NewInt(n), 64)
	}
	return intLit(n)
}

func intWidth(b *types.Basic) (w int, signed bool) {
	switch b.Kind() {
	case types.Int8:
		return 8, true
	case types.Int16:
		return 16, true
	case types.Int32, types.UntypedRune:
		return 32, true
	case types.Int64, types.Int, types.UntypedInt:
		return 64, true
	case types.Uint8:
		return 8, false
	case types.Uint16:
		return 16, false
	case types.Uint32:
		return 32, false
	case types.Uint64, types.Uint, types.Uintptr:
		return 64, false
	}
	return 0, false
}

// Ghost sets: the specification type set[T] is represented (inside govc only) by
// the Go type "chan<- T", which the modelled subset never uses for real values.
func setTypeOf(elem types.Type) types.Type { return types.NewChan(types.SendOnly, elem) }

func isSetType(t types.Type) (types.Type, bool) {
	if c, ok := t.(*types.Chan); ok && c.Dir() == types.SendOnly {
		return c.Elem(), true
	}
	return nil, false
}

func isTime(t types.Type) bool {
	if n, ok := t.(*types.Named); ok {
		o := n.Obj()
		return o.Pkg() != nil && o.Pkg().Path() == "time" && o.Name() == "Time"
	}
	return false
}

// SortOf maps a Go type to an SMT sort, declaring datatypes as needed.
func (s *Sorts) SortOf(t types.Type) string {
	if isTime(t) {
		return "Int"
	}
	if tp, ok := t.(*types.TypeParam); ok {
		return s.SortOf(tp.Constraint().Underlying())
	}
	if el, ok := isSetType(t); ok {
		return arraySort(s.SortOf(el), "Bool")
	}
	switch u := t.Underlying().(type) {
	case *types.Basic:
		if u.Info()&types.IsBoolean != 0 {
			return "Bool"
		}
		if u.Info()&types.IsInteger != 0 {
			if s.mode == ModeBV {
				w, _ := intWidth(u)
				return bvSort(w)
			}
			return "Int"
		}
		if u.Info()&types.IsString != 0 {
			return "Str"
		}
		if u.Kind() == types.Float64 || u.Kind() == types.UntypedFloat {
			return "Float64"
		}
		if u.Kind() == types.Float32 {
			return "Float32"
		}
		if u.Kind() == types.UnsafePointer {
			return "Int"
		}
		if u.Kind() == types.UntypedNil {
			return "Int"
		}
		return "Int"
	case *types.Pointer, *types.Map, *types.Chan, *types.Signature:
		return "Int"
	case *types.Interface:
		return "Iface"
	case *types.Slice:
		return "Slice"
	case *types.Array:
		return arraySort(s.Idx(), s.SortOf(u.Elem()))
	case *types.Struct:
		return s.structSort(t, u)
	case *types.Tuple:
		return "Tuple"
	}
	return "Int"
}

func shortTypeName(t types.Type) string {
	return types.TypeString(t, func(p *types.Package) string { return p.Name() })
}

func (s *Sorts) structSort(t types.Type, u *types.Struct) string {
	key := types.TypeString(t, nil)
	if n, ok := s.structNames[key]; ok {
		return n
	}
	var name string
	if n, ok := t.(*types.Named); ok {
		name = "S_" + sanitize(shortTypeName(n))
	} else {
		name = fmt.Sprintf("S_anon%d", len(s.structNames))
	}
	for s.declared[name] {
		name += "_"
	}
	s.declared[name] = true
	s.structNames[key] = name
	s.structTypes[name] = u
	var fields []string
	for i := 0; i < u.NumFields(); i++ {
		f := u.Field(i)
		fields = append(fields, fmt.Sprintf("(%s %s)", s.FieldSel(name, u, i), s.SortOf(f.Type())))
	}
	if len(fields) == 0 {
		s.decls = append(s.decls, fmt.Sprintf("(declare-datatypes ((%s 0)) (((mk_%s))))", name, name))
	} else {
		s.decls = append(s.decls, fmt.Sprintf("(declare-datatypes ((%s 0)) (((mk_%s %s))))", name, name, strings.Join(fields, " ")))
	}
	return name
}

func (s *Sorts) FieldSel(structSort string, u *types.Struct, i int) string {
	if u.Field(i).Name() == "_" {
		// several blank fields in one struct: selector names must be distinct (cvc5 rejects duplicates)
		return fmt.Sprintf("%s$_%d", structSort, i)
	}
	return structSort + "$" + sanitize(u.Field(i).Name())
}

// MkStruct builds a struct value from field terms.
func (s *Sorts) MkStruct(structSort string, fields []Term) Term {
	if len(fields) == 0 {
		return Term{"mk_" + structSort, structSort}
	}
	return Term{app("mk_"+structSort, fields...), structSort}
}

// StrConst returns the constant for a Go string literal.
func (s *Sorts) StrConst(v string) Term {
	if n, ok := s.strConsts[v]; ok {
		return Term{n, "Str"}
	}
	n := fmt.Sprintf("str%d_%s", len(s.strConsts), sanitize(truncate(v, 24)))
	s.strConsts[v] = n
	s.strOrder = append(s.strOrder, v)
	return Term{n, "Str"}
}

func truncate(s string, n int) string {
	if len(s) > n {
		return s[:n]
	}
	return s
}

// Heap returns the current name-independent declaration of a heap: the symbol
// for its value at function entry.
func (s *Sorts) Heap(name, sort string) {
	if _, ok := s.heaps[name]; ok {
		return
	}
	s.heaps[name] = sort
	s.heapOrder = append(s.heapOrder, name)
}

// FieldHeap is the heap holding field i of every struct of sort structSort
// that lives behind a pointer.
func (s *Sorts) FieldHeap(structSort string, u *types.Struct, i int) (string, string) {
	name := "H$" + strings.TrimPrefix(structSort, "S_") + "$" + sanitize(u.Field(i).Name())
	srt := arraySort("Int", s.SortOf(u.Field(i).Type()))
	s.Heap(name, srt)
	return name, srt
}

func sortTag(srt string) string {
	r := strings.NewReplacer("(", "", ")", "", " ", "_")
	return r.Replace(srt)
}

// typeTag names the heap a value of Go type t lives in: heaps are split by Go
// type, not by SMT sort, so that e.g. []int64 and []uint64 (both Int in int
// mode) can never alias, as Go's type system guarantees.
func (s *Sorts) typeTag(t types.Type) string {
	if isTime(t) {
		return "time"
	}
	switch u := t.Underlying().(type) {
	case *types.Basic:
		if u.Kind() == types.Uint8 {
			return "byte"
		}
		return u.Name()
	case *types.Pointer:
		return "ptr_" + s.typeTag(u.Elem())
	case *types.Slice:
		return "slice"
	case *types.Array:
		return fmt.Sprintf("arr%d_%s", u.Len(), s.typeTag(u.Elem()))
	case *types.Interface:
		// values of different interface types live in different heaps (a []Checker and a
		// []Response can never share a backing array)
		if n, ok := t.(*types.Named); ok {
			return "iface_" + sanitize(shortTypeName(n))
		}
		if u.NumMethods() == 0 {
			return "iface_any"
		}
		return "iface_" + sanitize(u.String())
	}
	return sortTag(s.SortOf(t))
}

// CellHeapT / ElemHeapT: heaps keyed by Go type.
func (s *Sorts) CellHeapT(t types.Type) (string, string) {
	es := s.SortOf(t)
	name := "HP$" + s.typeTag(t)
	srt := arraySort("Int", es)
	s.Heap(name, srt)
	return name, srt
}

func (s *Sorts) ElemHeapT(t types.Type) (string, string) {
	es := s.SortOf(t)
	name := "HS$" + s.typeTag(t)
	srt := arraySort("Int", arraySort(s.Idx(), es))
	s.Heap(name, srt)
	return name, srt
}

// CellHeap holds the targets of pointers to non-struct values of one sort.
func (s *Sorts) CellHeap(elemSort string) (string, string) {
	name := "HP$" + sortTag(elemSort)
	srt := arraySort("Int", elemSort)
	s.Heap(name, srt)
	return name, srt
}

// ElemHeap holds slice backing arrays of one element sort: ref -> index -> elem.
func (s *Sorts) ElemHeap(elemSort string) (string, string) {
	name := "HS$" + sortTag(elemSort)
	srt := arraySort("Int", arraySort(s.Idx(), elemSort))
	s.Heap(name, srt)
	return name, srt
}

func (s *Sorts) Fresh(prefix string) string {
	s.fresh++
	return fmt.Sprintf("%s!%d", sanitize(prefix), s.fresh)
}

// Preamble renders every declaration needed before the function's lines.
func (s *Sorts) Preamble() string {
	var b strings.Builder
	for _, d := range s.decls {
		b.WriteString(d)
		b.WriteString("\n")
	}
	for _, v := range s.strOrder {
		fmt.Fprintf(&b, "(declare-const %s Str)\n(assert (= (strlen %s) %d))\n", s.strConsts[v], s.strConsts[v], len(v))
	}
	if len(s.strOrder) > 1 {
		var names []string
		for _, v := range s.strOrder {
			names = append(names, s.strConsts[v])
		}
		sort.Strings(names)
		fmt.Fprintf(&b, "(assert (distinct %s))\n", strings.Join(names, " "))
	}
	return b.String()
}
