package main

import (
	"fmt"
	"go/constant"
	"go/token"
	"go/types"
	"math/big"
	"regexp"
	"sort"
	"strings"

	"golang.org/x/tools/go/ssa"
)

var ssaTemp = regexp.MustCompile(`\bt[0-9]+\b`)

type toolErr string

func (e toolErr) Error() string { return string(e) }

// Obligation is one named proof goal.
type Obligation struct {
	Name     string
	Kind     string // post inv-init inv-keep dec pre frame bounds nil div slice assert ovf lemma cover canary
	Func     string
	Prefix   int    // number of lines of the function's script that precede it
	Goal     string // SMT Bool term that must be valid under the prefix
	Detail   string // human-readable: clause text / source expression
	Pos      string
	Safety   bool // implicit-panic / overflow obligation (not contract-named)
	MustFail bool // canary: must NOT be discharged
	Cover    bool // satisfiability check of the prefix + Goal (must be sat)
	// filled by the solver run
	Result  string // unsat sat unknown timeout error
	Backend string
	TimeS   float64
	Model   string
	Size    int
	Script  *Script
	Replay  *ReplayInfo
}

// Script is the shared SMT text of one function (or lemma).
type Script struct {
	Preamble string
	Lines    []string
	// float64 is an uninterpreted sort in this script (the function only moves floats)
	OpaqueFloat bool
}

// Exec symbolically executes one function under contract and collects
// obligations.
type Exec struct {
	P        *Program
	DB       *SpecDB
	S        *Sorts
	mode     Mode
	tier     string
	lines    []string
	obls     []*Obligation
	discover bool
	top      *ssa.Function
	topKey   string
	contract *Contract
	entry    *State
	assumed  map[string]bool // assumptions that fired (trusted base)
	counters map[string]int
	curWrite map[string]bool // heaps written while executing the current top-level block
	writes   map[*ssa.BasicBlock]map[string]bool
	allocs   map[*ssa.BasicBlock]bool
	depth    int
	wraps    bool
	nosafety bool
	inlined  map[string]bool
	frames   []*Frame
	ufDecl   map[string]bool
	globals  map[string]bool
	ghost    map[string]Val // ghost parameters of the contract
	ghostReached map[string]Term // bind name -> path condition under which its point was passed
	callSeq  int
	inSpec   int
	inQuant  int
	idxUses  map[string]map[string]bool
	lookupAtEnd bool // local-variable lookup sees every definition of the block it is evaluated at
	lookupLimited bool // ... but only those before instruction index lookupLimit (program-point clauses)
	lookupLimit   int
	linking     bool
	sentAssumed map[string]bool
	constGlobals map[string]bool
	// counterexample replay: observation of the inputs (entry state) and, while a
	// postcondition obligation is being recorded, of the outputs at that return
	replayArgs []Val
	replayIn   []*Obs
	pendingOut []*Obs
	replayPre  int
	privCells  []privCell
	// axioms requested while a quantified formula was being built (emitted when it is complete)
	pendingAxioms []string
	assertSeen    map[string]bool
	rename          map[string]string // contract identifier -> renamed local (see zrebind.go)
	unresolvedHints map[string]bool   // witness names that did not resolve at some return
}

type Frame struct {
	fn       *ssa.Function
	vals     map[ssa.Value]Val
	end      map[*ssa.BasicBlock]*State // state at the end of each executed block
	cond     map[*ssa.BasicBlock]Term   // branch condition of blocks ending in If
	loops    map[*ssa.BasicBlock]*loopInfo
	order    []*ssa.BasicBlock
	back     map[[2]int]bool
	top      bool
	retVals  [][]Val
	retState []*State
	retBlock []*ssa.BasicBlock
	defers   []deferred
	headSt   map[*ssa.BasicBlock]*State // state right after the loop-head havoc
	headEnv  map[*ssa.BasicBlock]map[string]Val
	prefix   string
}

type deferred struct {
	guard Term
	call  *ssa.Defer
}

type loopInfo struct {
	header  *ssa.BasicBlock
	body    map[*ssa.BasicBlock]bool
	ordinal int
	spec    *LoopSpec
	excl    map[string][]Term
	written []string
	needHeadExcl bool
}

func (x *Exec) emit(line string) { x.lines = append(x.lines, line) }

func (x *Exec) define(prefix string, t Term) Term {
	if x.inQuant > 0 {
		return t // bound variables may occur: keep the term in place
	}
	// A declared constant with a defining equation rather than a define-fun macro:
	// macros are expanded inside quantifier patterns, which breaks E-matching on
	// ite-merged heaps and on arithmetic index terms.
	n := x.S.Fresh(prefix)
	x.emit(fmt.Sprintf("(declare-const %s %s)", n, t.Sort))
	x.emit(fmt.Sprintf("(assert (= %s %s))", n, t.S))
	return Term{n, t.Sort}
}

func (x *Exec) declare(prefix, srt string) Term {
	if x.inQuant > 0 {
		panic(toolErr("fresh symbol needed under a quantifier (callee with havoc inside a quantified specification)"))
	}
	n := x.S.Fresh(prefix)
	x.emit(fmt.Sprintf("(declare-const %s %s)", n, srt))
	if fn := "trg$" + sortTag(srt); x.ufDecl[fn] {
		// seed the instantiation marker (see evalQuant) for program values of this sort
		x.emit(fmt.Sprintf("(assert (%s %s))", fn, n))
	}
	return Term{n, srt}
}

// declareEq names a term with a declared constant (not a macro): solvers expand
// define-fun inside quantifier patterns, which makes patterns over ite-merged
// arrays invalid; a constant is a legal pattern subterm.
func (x *Exec) declareEq(prefix string, t Term) Term {
	if x.inQuant > 0 {
		return t
	}
	n := x.S.Fresh(prefix)
	x.emit(fmt.Sprintf("(declare-const %s %s)", n, t.Sort))
	x.emit(fmt.Sprintf("(assert (= %s %s))", n, t.S))
	return Term{n, t.Sort}
}

func (x *Exec) assume(t Term) {
	if t.S == "true" {
		return
	}
	x.emit("(assert " + t.S + ")")
}

func (x *Exec) assumeUnder(g, t Term) { x.assume(mkImp(g, t)) }

func (x *Exec) noteWrite(name string) {
	if x.curWrite != nil {
		x.curWrite[name] = true
	}
}

func (x *Exec) count(k string) int {
	x.counters[k]++
	return x.counters[k]
}

// oblige records a proof goal "guard => goal" at the current script position
// and assumes it afterwards (execution only continues past a check that held).
func (x *Exec) oblige(kind, name string, guard, goal Term, detail string, pos token.Pos, safety bool) {
	if goal.S == "true" || guard.S == "false" {
		if !safety {
			// keep contract-named obligations even when trivially true so that the
			// golden list stays stable
		} else {
			return
		}
	}
	if safety && x.nosafety {
		// not proved (stated in the evidence), but execution only continues past the point
		// if it did not panic there: what follows may rely on it
		if x.inSpec == 0 {
			x.assume(mkImp(guard, goal))
		}
		return
	}
	full := mkImp(guard, goal)
	o := &Obligation{Name: x.topKeyShort() + "/" + name, Kind: kind, Func: x.topKeyShort(), Prefix: len(x.lines), Goal: full.S,
		Detail: detail, Safety: safety}
	if pos.IsValid() {
		p := x.P.Prog.Fset.Position(pos)
		o.Pos = fmt.Sprintf("%s:%d", strings.TrimPrefix(p.Filename, x.P.Repo+"/"), p.Line)
	}
	if !x.discover {
		if x.replayIn != nil && (kind == "post" || safety) {
			o.Replay = &ReplayInfo{Fn: x.top, In: x.replayIn, Out: x.pendingOut, StrConsts: x.S.strConsts, BV: x.mode == ModeBV, PrePrefix: x.replayPre}
			switch kind {
			case "bounds", "nil", "slice", "div", "shift", "assert", "panic":
				o.Replay.ExpectPanic = true
			}
		}
		x.obls = append(x.obls, o)
	}
	x.assume(full)
}

func (x *Exec) topKeyShort() string { return ShortKey(x.topKey) }

// safetyName builds a content-based name for an implicit obligation so that it
// does not move when unrelated code is edited.
func (x *Exec) safetyName(kind string, fr *Frame, instr ssa.Instruction, what string) string {
	what = strings.Join(strings.Fields(what), "")
	what = ssaTemp.ReplaceAllString(what, "t") // SSA register numbers are not stable under edits
	if len(what) > 48 {
		what = what[:48]
	}
	base := kind + "[" + fr.prefix + what + "]"
	return fmt.Sprintf("%s#%d", base, x.count(base))
}

// ---------- CFG analysis ----------

func analyseCFG(fn *ssa.Function) (order []*ssa.BasicBlock, back map[[2]int]bool, loops map[*ssa.BasicBlock]*loopInfo) {
	back = map[[2]int]bool{}
	loops = map[*ssa.BasicBlock]*loopInfo{}
	// back edges: target dominates source
	for _, b := range fn.Blocks {
		for _, s := range b.Succs {
			if s.Dominates(b) {
				back[[2]int{b.Index, s.Index}] = true
				li := loops[s]
				if li == nil {
					li = &loopInfo{header: s, body: map[*ssa.BasicBlock]bool{s: true}}
					loops[s] = li
				}
				// natural loop: nodes that reach b without passing through s
				var stack []*ssa.BasicBlock
				if !li.body[b] {
					li.body[b] = true
					stack = append(stack, b)
				}
				for len(stack) > 0 {
					n := stack[len(stack)-1]
					stack = stack[:len(stack)-1]
					for _, p := range n.Preds {
						if !li.body[p] {
							li.body[p] = true
							stack = append(stack, p)
						}
					}
				}
			}
		}
	}
	var hs []*ssa.BasicBlock
	for h := range loops {
		hs = append(hs, h)
	}
	sort.Slice(hs, func(i, j int) bool { return hs[i].Index < hs[j].Index })
	for i, h := range hs {
		loops[h].ordinal = i + 1
	}
	// reverse postorder ignoring back edges
	seen := map[*ssa.BasicBlock]bool{}
	var post []*ssa.BasicBlock
	var dfs func(b *ssa.BasicBlock)
	dfs = func(b *ssa.BasicBlock) {
		seen[b] = true
		for i := len(b.Succs) - 1; i >= 0; i-- {
			s := b.Succs[i]
			if back[[2]int{b.Index, s.Index}] || seen[s] {
				continue
			}
			dfs(s)
		}
		post = append(post, b)
	}
	if len(fn.Blocks) > 0 {
		dfs(fn.Blocks[0])
	}
	for i := len(post) - 1; i >= 0; i-- {
		order = append(order, post[i])
	}
	return
}

// ---------- frames ----------

func (x *Exec) newFrame(fn *ssa.Function, top bool) *Frame {
	fr := &Frame{fn: fn, vals: map[ssa.Value]Val{}, end: map[*ssa.BasicBlock]*State{}, cond: map[*ssa.BasicBlock]Term{}, top: top,
		headSt: map[*ssa.BasicBlock]*State{}, headEnv: map[*ssa.BasicBlock]map[string]Val{}}
	fr.order, fr.back, fr.loops = analyseCFG(fn)
	return fr
}

// edgeGuard is the condition under which control flows along pred->succ.
func (x *Exec) edgeGuard(fr *Frame, pred, succ *ssa.BasicBlock) Term {
	st := fr.end[pred]
	if st == nil {
		return tFalse
	}
	g := st.Guard
	if c, ok := fr.cond[pred]; ok {
		if len(pred.Succs) == 2 {
			if pred.Succs[0] == succ && pred.Succs[1] == succ {
				return g
			}
			if pred.Succs[0] == succ {
				return mkAnd(g, c)
			}
			return mkAnd(g, mkNot(c))
		}
	}
	return g
}

// mergeStates joins the states arriving over the given edges.
func (x *Exec) mergeStates(fr *Frame, b *ssa.BasicBlock, preds []*ssa.BasicBlock) *State {
	type inc struct {
		g  Term
		st *State
	}
	var ins []inc
	for _, p := range preds {
		st := fr.end[p]
		if st == nil {
			continue
		}
		g := x.edgeGuard(fr, p, b)
		if g.S == "false" {
			continue
		}
		ins = append(ins, inc{g, st})
	}
	if len(ins) == 0 {
		dead := x.entry.clone()
		dead.Guard = tFalse
		return dead
	}
	if len(ins) == 1 {
		n := ins[0].st.clone()
		n.Guard = x.nameGuard(ins[0].g)
		return n
	}
	var gs []Term
	for _, i := range ins {
		gs = append(gs, i.g)
	}
	n := &State{Guard: x.nameGuard(mkOr(gs...)), Heaps: map[string]Term{}}
	names := map[string]bool{}
	for _, i := range ins {
		for k := range i.st.Heaps {
			names[k] = true
		}
	}
	var keys []string
	for k := range names {
		keys = append(keys, k)
	}
	sort.Strings(keys)
	for _, k := range keys {
		srt := x.S.heaps[k]
		v := x.heapGet(ins[len(ins)-1].st, k, srt)
		for j := len(ins) - 2; j >= 0; j-- {
			v = mkIte(ins[j].g, x.heapGet(ins[j].st, k, srt), v)
		}
		if len(v.S) > 60 {
			v = x.define(k, v)
		}
		n.Heaps[k] = v
	}
	a := ins[len(ins)-1].st.Alloc
	for j := len(ins) - 2; j >= 0; j-- {
		a = mkIte(ins[j].g, ins[j].st.Alloc, a)
	}
	if len(a.S) > 60 {
		a = x.define("alloc", a)
	}
	n.Alloc = a
	return n
}

func (x *Exec) nameGuard(g Term) Term {
	if len(g.S) > 30 {
		return x.define("g", g)
	}
	return g
}

// ---------- values ----------

func (x *Exec) constVal(c *ssa.Const) Val {
	t := c.Type()
	if c.Value == nil {
		return Val{T: x.zeroOf(t), Typ: t}
	}
	switch u := t.Underlying().(type) {
	case *types.Basic:
		switch {
		case u.Info()&types.IsBoolean != 0:
			return Val{T: mkBool(constant.BoolVal(c.Value)), Typ: t}
		case u.Info()&types.IsInteger != 0:
			n, _ := new(big.Int).SetString(c.Value.ExactString(), 10)
			if n == nil {
				if i, ok := constant.Int64Val(constant.ToInt(c.Value)); ok {
					n = big.NewInt(i)
				} else {
					n = big.NewInt(0)
				}
			}
			return Val{T: x.intConst(n, t), Typ: t}
		case u.Info()&types.IsString != 0:
			return Val{T: x.S.StrConst(constant.StringVal(c.Value)), Typ: t}
		case u.Info()&types.IsFloat != 0:
			f, _ := constant.Float64Val(c.Value)
			return Val{T: x.floatLit(f, u.Kind() == types.Float32), Typ: t}
		}
	}
	panic(toolErr("unsupported constant " + c.String()))
}

func (x *Exec) val(fr *Frame, v ssa.Value) Val {
	switch v := v.(type) {
	case *ssa.Const:
		return x.constVal(v)
	case *ssa.Function:
		return Val{Fn: v, Typ: v.Type(), T: intLit(1)}
	case *ssa.Global:
		return Val{Addr: x.globalAddr(v), Typ: v.Type()}
	case *ssa.Builtin:
		return Val{Typ: v.Type()}
	}
	if r, ok := fr.vals[v]; ok {
		return r
	}
	panic(toolErr(fmt.Sprintf("value %s (%T) of %s used before definition", v.Name(), v, fr.fn.Name())))
}

func (x *Exec) globalAddr(g *ssa.Global) *Addr {
	t := pointee(g.Type())
	name := g.Pkg.Pkg.Path() + "." + g.Name()
	return &Addr{Kind: akGlobal, Global: name, RootT: t, T: t}
}

func (x *Exec) setVal(fr *Frame, v ssa.Value, val Val) {
	if val.Typ == nil {
		val.Typ = v.Type()
	}
	if val.Addr == nil && val.Tuple == nil && val.Fn == nil && len(val.T.S) > 48 {
		val.T = x.define(fr.prefix+v.Name(), val.T)
	}
	fr.vals[v] = val
}

// fresh declares an unconstrained value of a Go type and assumes its type
// invariant under the guard.
func (x *Exec) freshVal(prefix string, t types.Type, st *State) Val {
	if tup, ok := t.(*types.Tuple); ok {
		var vs []Val
		for i := 0; i < tup.Len(); i++ {
			vs = append(vs, x.freshVal(prefix, tup.At(i).Type(), st))
		}
		return Val{Tuple: vs, Typ: t}
	}
	v := x.declare(prefix, x.S.SortOf(t))
	x.assume(x.typeInv(v, t, 0))
	if st != nil {
		x.assume(x.refsBelow(v, t, st.Alloc, 0))
	}
	return Val{T: v, Typ: t}
}

func (x *Exec) floatLit(f float64, is32 bool) Term {
	if is32 {
		return Term{fmt.Sprintf("((_ to_fp 8 24) RNE %s)", realLit(f)), "Float32"}
	}
	return Term{fmt.Sprintf("((_ to_fp 11 53) RNE %s)", realLit(f)), "Float64"}
}

func realLit(f float64) string {
	r := new(big.Rat)
	r.SetFloat64(f)
	s := fmt.Sprintf("(/ %s.0 %s.0)", new(big.Int).Abs(r.Num()).String(), r.Denom().String())
	if r.Sign() < 0 {
		return "(- " + s + ")"
	}
	return s
}

// ---------- running a function ----------

// run executes all blocks of the frame's function from the given entry state.
// Returns the merged exit state and result values.
func (x *Exec) run(fr *Frame, entry *State, args []Val) (*State, []Val) {
	fn := fr.fn
	if len(fn.Blocks) == 0 {
		panic(toolErr("no body for " + fn.String()))
	}
	for i, p := range fn.Params {
		if i < len(args) {
			a := args[i]
			a.Typ = p.Type()
			fr.vals[p] = a
		}
	}
	x.frames = append(x.frames, fr)
	defer func() { x.frames = x.frames[:len(x.frames)-1] }()
	for _, b := range fr.order {
		var st *State
		if b.Index == 0 {
			st = entry.clone()
		} else {
			var fwd []*ssa.BasicBlock
			for _, p := range b.Preds {
				if !fr.back[[2]int{p.Index, b.Index}] {
					fwd = append(fwd, p)
				}
			}
			st = x.mergeStates(fr, b, fwd)
		}
		if fr.top {
			x.curWrite = map[string]bool{}
		}
		if li, ok := fr.loops[b]; ok {
			st = x.loopHead(fr, li, st)
		} else {
			x.phis(fr, b, nil)
		}
		x.block(fr, b, st)
		fr.end[b] = st
		if fr.top {
			x.writes[b] = x.curWrite
		}
		// back edges leaving this block: invariant preservation
		for _, s := range b.Succs {
			if fr.back[[2]int{b.Index, s.Index}] {
				x.loopBack(fr, fr.loops[s], b)
			}
		}
	}
	// merge returns
	if len(fr.retState) == 0 {
		return &State{Guard: tFalse, Heaps: entry.clone().Heaps, Alloc: entry.Alloc}, nil
	}
	if len(fr.retState) == 1 {
		return fr.retState[0], fr.retVals[0]
	}
	out := &State{Heaps: map[string]Term{}}
	var gs []Term
	for _, s := range fr.retState {
		gs = append(gs, s.Guard)
	}
	out.Guard = x.nameGuard(mkOr(gs...))
	names := map[string]bool{}
	for _, s := range fr.retState {
		for k := range s.Heaps {
			names[k] = true
		}
	}
	var keys []string
	for k := range names {
		keys = append(keys, k)
	}
	sort.Strings(keys)
	n := len(fr.retState)
	for _, k := range keys {
		srt := x.S.heaps[k]
		v := x.heapGet(fr.retState[n-1], k, srt)
		for j := n - 2; j >= 0; j-- {
			v = mkIte(fr.retState[j].Guard, x.heapGet(fr.retState[j], k, srt), v)
		}
		if len(v.S) > 60 {
			v = x.define(k, v)
		}
		out.Heaps[k] = v
	}
	a := fr.retState[n-1].Alloc
	for j := n - 2; j >= 0; j-- {
		a = mkIte(fr.retState[j].Guard, fr.retState[j].Alloc, a)
	}
	out.Alloc = x.defineIfBig("alloc", a)
	var res []Val
	for i := range fr.retVals[0] {
		v := fr.retVals[n-1][i]
		if v.Tuple != nil || v.Addr != nil {
			panic(toolErr("unsupported result value shape in " + fn.Name()))
		}
		t := v.T
		for j := n - 2; j >= 0; j-- {
			t = mkIte(fr.retState[j].Guard, fr.retVals[j][i].T, t)
		}
		res = append(res, Val{T: x.defineIfBig(fr.prefix+"ret", t), Typ: v.Typ})
	}
	return out, res
}

func (x *Exec) defineIfBig(prefix string, t Term) Term {
	if len(t.S) > 48 {
		return x.define(prefix, t)
	}
	return t
}

// phis defines the φ-nodes of a non-header block from the forward edges.
func (x *Exec) phis(fr *Frame, b *ssa.BasicBlock, only map[*ssa.BasicBlock]bool) {
	for _, ins := range b.Instrs {
		phi, ok := ins.(*ssa.Phi)
		if !ok {
			break
		}
		var t Term
		first := true
		var anyVal Val
		for i := len(b.Preds) - 1; i >= 0; i-- {
			p := b.Preds[i]
			if fr.end[p] == nil || fr.back[[2]int{p.Index, b.Index}] {
				continue
			}
			g := x.edgeGuard(fr, p, b)
			if g.S == "false" {
				continue
			}
			v := x.val(fr, phi.Edges[i])
			if v.Addr != nil || v.Tuple != nil {
				panic(toolErr("phi over an address in " + fr.fn.Name()))
			}
			anyVal = v
			if first {
				t = v.T
				first = false
			} else {
				t = mkIte(g, v.T, t)
			}
		}
		if first {
			t = x.zeroOf(phi.Type())
		}
		nv := Val{T: t, Typ: phi.Type(), Fn: anyVal.Fn, Bind: anyVal.Bind}
		x.setVal(fr, phi, nv)
	}
}

func (x *Exec) block(fr *Frame, b *ssa.BasicBlock, st *State) {
	for idx, ins := range b.Instrs {
		if _, ok := ins.(*ssa.Phi); ok {
			continue
		}
		x.checkAsserts(fr, b, st, ins)
		x.instr(fr, b, st, ins)
		x.checkBindsAfter(fr, b, st, idx)
	}
}
