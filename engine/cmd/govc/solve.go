package main

import (
	"bytes"
	"context"
	"fmt"
	"os"
	"os/exec"
	"path/filepath"
	"strings"
	"sync"
	"time"
)

type SolverCfg struct {
	Name string
	Path string
	Args func(timeoutS int) []string
	Pre  string // text put before the script
}

var solvers = []SolverCfg{
	// E-matching only: answers in well under a second when triggers suffice, and
	// gives up quickly (unknown) when they do not
	{Name: "z3-new/ematch", Path: "z3-new", Args: func(t int) []string {
		return []string{"-smt2", "-in", fmt.Sprintf("-T:%d", wallCap(t)), fmt.Sprintf("rlimit=%d", t*rlimitPerSecond), "smt.mbqi=false", "smt.auto_config=false"}
	}},
	{Name: "z3-new", Path: "z3-new", Args: func(t int) []string {
		return []string{"-smt2", "-in", fmt.Sprintf("-T:%d", wallCap(t)), fmt.Sprintf("rlimit=%d", t*rlimitPerSecond)}
	}},
	{Name: "z3", Path: "z3", Args: func(t int) []string {
		return []string{"-smt2", "-in", fmt.Sprintf("-T:%d", wallCap(t)), fmt.Sprintf("rlimit=%d", t*rlimitPerSecond)}
	}},
	{Name: "cvc5", Path: "cvc5", Args: func(t int) []string {
		return []string{"--lang=smt2", fmt.Sprintf("--tlimit=%d", t*1000), "--produce-models", "--full-saturate-quant"}
	}, Pre: "(set-logic ALL)\n"},
}

// The z3 budgets are resource limits, not seconds: rlimit counts solver steps, so the
// verdict on an obligation does not depend on how busy the machine is (about 3 million
// units are one second of an idle core here). The wall-clock limit is only a backstop.
const rlimitPerSecond = 3000000

func wallCap(t int) int { return 8*t + 20 }

const maxQueryBytes = 400 * 1024

func (o *Obligation) Query(withModel bool) string {
	var b strings.Builder
	b.WriteString(o.Script.Preamble)
	for _, l := range o.Script.Lines[:o.Prefix] {
		b.WriteString(l)
		b.WriteString("\n")
	}
	if o.Cover {
		b.WriteString("(assert " + o.Goal + ")\n")
	} else {
		b.WriteString("(assert (not " + o.Goal + "))\n")
	}
	b.WriteString("(check-sat)\n")
	if withModel {
		b.WriteString("(get-model)\n")
	}
	return b.String()
}

func runSolver(s SolverCfg, query string, timeoutS int) (result string, out string, dur float64) {
	ctx, cancel := context.WithTimeout(context.Background(), time.Duration(wallCap(timeoutS)+5)*time.Second)
	defer cancel()
	cmd := exec.CommandContext(ctx, s.Path, s.Args(timeoutS)...)
	cmd.Stdin = strings.NewReader(s.Pre + query)
	var ob bytes.Buffer
	cmd.Stdout = &ob
	cmd.Stderr = &ob
	t0 := time.Now()
	_ = cmd.Run()
	dur = time.Since(t0).Seconds()
	out = ob.String()
	first := ""
	for _, ln := range strings.Split(out, "\n") {
		ln = strings.TrimSpace(ln)
		if ln == "unsat" || ln == "sat" || ln == "unknown" || ln == "timeout" {
			first = ln
			break
		}
		if first == "" && ln != "" {
			first = ln
		}
	}
	switch first {
	case "unsat", "sat", "unknown":
		return first, out, dur
	case "timeout":
		return "timeout", out, dur
	}
	if ctx.Err() != nil || first == "" || strings.Contains(out, "interrupted by timeout") {
		return "timeout", out, dur
	}
	return "error", out, dur
}

// Discharge runs the portfolio on one obligation.
func Discharge(o *Obligation, timeoutS int, thorough bool) {
	q := o.Query(false)
	o.Size = len(q)
	if len(q) > maxQueryBytes {
		o.Result = "error"
		o.Model = fmt.Sprintf("query of %d bytes exceeds the %d byte cap: split the function with an intermediate contract", len(q), maxQueryBytes)
		return
	}
	want := "unsat"
	other := "sat"
	if o.Cover {
		want, other = "sat", "unsat"
	}
	var total float64
	var lastOut, errOut string
	answered := false
	o.Result = "unknown"
	for si, s := range solvers {
		if o.Cover || o.MustFail {
			// vacuity guards only need to notice an unexpected unsat; finding a model of a
			// quantified script is not required of them
			if si > 0 {
				break
			}
			if timeoutS > 3 {
				timeoutS = 3
			}
		}
		res, out, d := runSolver(s, q, timeoutS)
		total += d
		lastOut = out
		if res == want {
			o.Result, o.Backend, o.TimeS = want, s.Name, total
			if thorough && !o.Cover {
				// cross-check: no other solver may answer sat on the same query
				for _, s2 := range solvers {
					if s2.Name == s.Name {
						continue
					}
					r2, _, d2 := runSolver(s2, q, timeoutS)
					total += d2
					if r2 == "sat" {
						o.Result, o.Backend = "sat", s2.Name+" (disagrees with "+s.Name+")"
					}
				}
				o.TimeS = total
			}
			return
		}
		if res == other {
			o.Result, o.Backend, o.TimeS = other, s.Name, total
			if !o.Cover {
				// fetch a model from the solver that said sat
				_, mout, _ := runSolver(s, o.Query(true), timeoutS)
				o.Model = mout
			}
			return
		}
		if res == "error" {
			// a back end that cannot read the script (cvc5 on some z3 array terms) says
			// nothing about the goal: the verdict of the others stands
			errOut = truncate(out, 2000)
			continue
		}
		answered = true
		if res == "timeout" {
			o.Result = "timeout"
		}
	}
	if !answered && errOut != "" {
		o.Result, o.Model = "error", errOut
	}
	o.TimeS = total
	if o.Model == "" {
		o.Model = truncate(lastOut, 2000)
	}
}

// DischargeAll runs every obligation on a worker pool.
func DischargeAll(obls []*Obligation, timeoutS int, thorough bool, workers int) {
	var wg sync.WaitGroup
	ch := make(chan *Obligation)
	for i := 0; i < workers; i++ {
		wg.Add(1)
		go func() {
			defer wg.Done()
			for o := range ch {
				Discharge(o, timeoutS, thorough)
			}
		}()
	}
	for _, o := range obls {
		ch <- o
	}
	close(ch)
	wg.Wait()
}

func dumpQuery(dir string, o *Obligation) string {
	os.MkdirAll(dir, 0o755)
	p := filepath.Join(dir, sanitize(o.Name)+".smt2")
	os.WriteFile(p, []byte(o.Query(true)), 0o644)
	return p
}
