package main

import (
	"fmt"
	"go/constant"
	"go/token"
	"go/types"
	"math/big"
	"strings"

	"golang.org/x/tools/go/ssa"
)

// SpecEnv is the context a specification expression is evaluated in.
type SpecEnv struct {
	x           *Exec
	fr          *Frame
	at          *ssa.BasicBlock
	vars        map[string]Val
	cur, old    *State
	pkg         *types.Package
	phiOverride map[*ssa.Phi]Val
	predDepth   int
	bound       int
	ghostOf     *ghostCtx
	postMode    bool
	witness     map[string]Val // values to use for existentially bound names
}

func (x *Exec) envAt(fr *Frame, at *ssa.BasicBlock, st *State) *SpecEnv {
	env := &SpecEnv{x: x, fr: fr, at: at, vars: map[string]Val{}, cur: st, old: x.entry}
	if fr != nil && fr.fn.Pkg != nil {
		env.pkg = fr.fn.Pkg.Pkg
	} else if fr != nil && fr.fn.Object() != nil {
		env.pkg = fr.fn.Object().Pkg()
	}
	for k, v := range x.ghost {
		env.vars[k] = v
	}
	return env
}

func (e *SpecEnv) with(name string, v Val) *SpecEnv {
	n := *e
	n.vars = make(map[string]Val, len(e.vars)+1)
	for k, vv := range e.vars {
		n.vars[k] = vv
	}
	n.vars[name] = v
	return &n
}

func (e *SpecEnv) inState(st *State) *SpecEnv {
	n := *e
	n.cur = st
	return &n
}

func specErr(f string, a ...interface{}) toolErr { return toolErr("spec: " + fmt.Sprintf(f, a...)) }

func (x *Exec) evalBool(env *SpecEnv, e Expr) Term {
	v := x.evalVal(env, e)
	if v.T.Sort != "Bool" {
		panic(specErr("expression %s is not boolean (sort %s)", e.exprString(), v.T.Sort))
	}
	return v.T
}

// resolveType turns a type as written in a contract into a Go type, in the
// scope of the contract's package.
func (x *Exec) resolveType(env *SpecEnv, text string) types.Type {
	switch text {
	case "int":
		return types.Typ[types.Int]
	case "int64":
		return types.Typ[types.Int64]
	case "int32":
		return types.Typ[types.Int32]
	case "uint64":
		return types.Typ[types.Uint64]
	case "uint32":
		return types.Typ[types.Uint32]
	case "uint8", "byte":
		return types.Typ[types.Uint8]
	case "uint":
		return types.Typ[types.Uint]
	case "bool":
		return types.Typ[types.Bool]
	case "string":
		return types.Typ[types.String]
	case "float64":
		return types.Typ[types.Float64]
	}
	if strings.HasPrefix(text, "set[") && strings.HasSuffix(text, "]") {
		return setTypeOf(x.resolveType(env, text[4:len(text)-1]))
	}
	if strings.HasPrefix(text, "[]") {
		return types.NewSlice(x.resolveType(env, text[2:]))
	}
	if strings.HasPrefix(text, "*") {
		return types.NewPointer(x.resolveType(env, text[1:]))
	}
	if env.pkg != nil {
		if k := strings.Index(text, "."); k > 0 {
			pn, tn := text[:k], text[k+1:]
			for _, imp := range env.pkg.Imports() {
				if imp.Name() == pn {
					if o := imp.Scope().Lookup(tn); o != nil {
						return o.Type()
					}
				}
			}
			// any loaded package with that name
			for _, p := range x.P.Prog.AllPackages() {
				if p.Pkg.Name() == pn {
					if o := p.Pkg.Scope().Lookup(tn); o != nil {
						if _, ok := o.(*types.TypeName); ok {
							return o.Type()
						}
					}
				}
			}
		}
		if o := env.pkg.Scope().Lookup(text); o != nil {
			if _, ok := o.(*types.TypeName); ok {
				return o.Type()
			}
		}
	}
	panic(specErr("unknown type %q", text))
}

func parseIntLit(s string) *big.Int {
	n := new(big.Int)
	if _, ok := n.SetString(s, 0); ok {
		return n
	}
	panic(specErr("bad integer literal %q", s))
}

// coerce gives an untyped constant the type of the other operand.
func (x *Exec) coerce(v Val, t types.Type) Val {
	if v.Const != nil {
		if t == nil || !isInteger(t) {
			if t != nil && isFloat(t) {
				f, _ := new(big.Float).SetInt(v.Const).Float64()
				return Val{T: x.floatLit(f, false), Typ: t}
			}
			return Val{T: bigLitMode(x, v.Const, types.Typ[types.Int]), Typ: types.Typ[types.Int]}
		}
		return Val{T: x.intConst(v.Const, t), Typ: t}
	}
	if v.IsNil {
		if t == nil {
			panic(specErr("nil without a type"))
		}
		return Val{T: x.zeroOf(t), Typ: t}
	}
	return v
}

func bigLitMode(x *Exec, n *big.Int, t types.Type) Term { return x.intConst(n, t) }

func (x *Exec) evalVal(env *SpecEnv, e Expr) Val {
	switch e := e.(type) {
	case EInt:
		return Val{Const: parseIntLit(e.Val)}
	case EStr:
		return Val{T: x.S.StrConst(e.Val), Typ: types.Typ[types.String]}
	case EBool:
		return Val{T: mkBool(e.Val), Typ: types.Typ[types.Bool]}
	case ENil:
		return Val{IsNil: true}
	case EIdent:
		return x.evalIdent(env, e.Name)
	case EOld:
		if env.old == nil {
			panic(specErr("old() outside a two-state context"))
		}
		n := env.inState(env.old)
		n.phiOverride = nil
		return x.evalVal(n, e.X)
	case EUnary:
		return x.evalUnary(env, e)
	case EBinary:
		return x.evalBinary(env, e)
	case ECond:
		c := x.evalBool(env, e.C)
		a, b := x.evalVal(env, e.A), x.evalVal(env, e.B)
		a, b = x.unify(a, b)
		return Val{T: mkIte(c, a.T, b.T), Typ: a.Typ}
	case EField:
		return x.evalField(env, e)
	case EIndex:
		return x.evalIndex(env, e)
	case ESlice:
		base := x.evalVal(env, e.X)
		if base.T.Sort != "Slice" {
			panic(specErr("slicing a non-slice in %s", e.exprString()))
		}
		ref, off, ln, cp := x.sliceParts(base.T)
		lo, hi := x.S.IdxLit(0), ln
		if e.Lo != nil {
			lo = x.coerce(x.evalVal(env, e.Lo), types.Typ[types.Int]).T
		}
		if e.Hi != nil {
			hi = x.coerce(x.evalVal(env, e.Hi), types.Typ[types.Int]).T
		}
		return Val{T: Term{app("mk_slice", ref, x.iAdd(off, lo), x.iSub(hi, lo), x.iSub(cp, lo)), "Slice"}, Typ: base.Typ}
	case ETypeAssert:
		v := x.evalVal(env, e.X)
		if v.T.Sort != "Iface" {
			panic(specErr("type assertion on a non-interface value in %s", e.exprString()))
		}
		at := x.resolveType(env, e.Type)
		is := mkEq(Term{app("i_typ", v.T), "Int"}, x.typeID(at))
		if e.Test {
			return Val{T: is, Typ: types.Typ[types.Bool]}
		}
		pv := Term{app("i_val", v.T), "Int"}
		switch at.Underlying().(type) {
		case *types.Pointer, *types.Map, *types.Chan, *types.Signature:
			return Val{T: pv, Typ: at}
		}
		_, unbox := x.boxFns(at, true)
		return Val{T: Term{app(unbox, pv), x.S.SortOf(at)}, Typ: at}
	case EQuant:
		return x.evalQuant(env, e)
	case ECall:
		return x.evalCall(env, e)
	case EMethod:
		return x.evalMethod(env, e)
	}
	panic(specErr("unsupported expression %T", e))
}

func (x *Exec) unify(a, b Val) (Val, Val) {
	if a.Const != nil && b.Const != nil {
		return x.coerce(a, nil), x.coerce(b, nil)
	}
	if a.Const != nil || a.IsNil {
		return x.coerce(a, b.Typ), b
	}
	if b.Const != nil || b.IsNil {
		return a, x.coerce(b, a.Typ)
	}
	return a, b
}

func (x *Exec) evalIdent(env *SpecEnv, name string) Val {
	if v, ok := env.vars[name]; ok {
		return v
	}
	if r, ok := x.rename[name]; ok {
		name = r // a proof hint rebound to a renamed local (zrebind.go)
	}
	if env.ghostOf != nil {
		for _, g := range env.ghostOf.is.Ghost {
			if g.Name == name {
				a := x.ghostAddr(env.ghostOf.is, name, env.ghostOf.recv)
				return Val{T: x.loadAddr(env.cur, a), Typ: a.T}
			}
		}
	}
	if name == "$o" && env.fr != nil && env.at != nil {
		// index of the current element of the nearest ENCLOSING range loop (for invariants
		// of a range loop nested in another one, where $i is the inner loop's own count)
		for b := env.at.Idom(); b != nil; b = b.Idom() {
			for _, ins := range b.Instrs {
				if phi, ok := ins.(*ssa.Phi); ok && phi.Comment == "rangeindex" {
					if pv, ok := env.fr.vals[phi]; ok {
						return Val{T: x.iAdd(pv.T, x.S.IdxLit(1)), Typ: types.Typ[types.Int]}
					}
				}
			}
		}
		panic(specErr("$o used outside a nested range loop"))
	}
	if name == "$i" && env.fr != nil && env.at != nil {
		// number of elements already visited by a range loop = rangeindex φ + 1
		for _, ins := range env.at.Instrs {
			if phi, ok := ins.(*ssa.Phi); ok && phi.Comment == "rangeindex" {
				pv := x.phiVal(env, phi)
				one := x.S.IdxLit(1)
				return Val{T: x.iAdd(pv.T, one), Typ: types.Typ[types.Int]}
			}
		}
		// inside a loop nested in a range loop, $i is the index of the enclosing range
		// loop's current element (= the number of elements it had visited before)
		for b := env.at.Idom(); b != nil; b = b.Idom() {
			for _, ins := range b.Instrs {
				if phi, ok := ins.(*ssa.Phi); ok && phi.Comment == "rangeindex" {
					if pv, ok := env.fr.vals[phi]; ok {
						return Val{T: x.iAdd(pv.T, x.S.IdxLit(1)), Typ: types.Typ[types.Int]}
					}
				}
			}
		}
		panic(specErr("$i used outside a range loop"))
	}
	if env.fr != nil {
		// φ of the block we are at
		if env.at != nil {
			for _, ins := range env.at.Instrs {
				if phi, ok := ins.(*ssa.Phi); ok {
					if phi.Comment == name {
						return x.phiVal(env, phi)
					}
				} else {
					break
				}
			}
		}
		at := env.at
		if at == nil {
			at = env.fr.fn.Blocks[0]
		}
		if v, ok := x.lookupLocal(env.fr, name, at, env.cur); ok {
			return v
		}
	}
	// package-level constants and variables
	if env.pkg != nil {
		if o := env.pkg.Scope().Lookup(name); o != nil {
			return x.objVal(env, o)
		}
	}
	if o := types.Universe.Lookup(name); o != nil {
		if c, ok := o.(*types.Const); ok {
			return x.constObj(c)
		}
	}
	panic(specErr("unknown identifier %q", name))
}

func (x *Exec) phiVal(env *SpecEnv, phi *ssa.Phi) Val {
	if env.phiOverride != nil {
		if v, ok := env.phiOverride[phi]; ok {
			return v
		}
	}
	return x.val(env.fr, phi)
}

func (x *Exec) constObj(c *types.Const) Val {
	v := c.Val()
	switch v.Kind() {
	case constant.Int:
		n, _ := new(big.Int).SetString(v.ExactString(), 10)
		if b, ok := c.Type().Underlying().(*types.Basic); ok && b.Info()&types.IsUntyped != 0 {
			return Val{Const: n}
		}
		return Val{T: x.intConst(n, c.Type()), Typ: c.Type()}
	case constant.String:
		return Val{T: x.S.StrConst(constant.StringVal(v)), Typ: c.Type()}
	case constant.Bool:
		return Val{T: mkBool(constant.BoolVal(v)), Typ: c.Type()}
	case constant.Float:
		f, _ := constant.Float64Val(v)
		return Val{T: x.floatLit(f, false), Typ: c.Type()}
	}
	panic(specErr("unsupported constant %s", c.Name()))
}

func (x *Exec) objVal(env *SpecEnv, o types.Object) Val {
	switch o := o.(type) {
	case *types.Const:
		return x.constObj(o)
	case *types.Var:
		a := &Addr{Kind: akGlobal, Global: o.Pkg().Path() + "." + o.Name(), RootT: o.Type(), T: o.Type()}
		return Val{T: x.globalRead(env.cur, a), Typ: o.Type()}
	}
	panic(specErr("identifier %q is not a value", o.Name()))
}

func (x *Exec) evalUnary(env *SpecEnv, e EUnary) Val {
	v := x.evalVal(env, e.X)
	switch e.Op {
	case "!":
		return Val{T: mkNot(v.T), Typ: types.Typ[types.Bool]}
	case "-":
		if v.Const != nil {
			return Val{Const: new(big.Int).Neg(v.Const)}
		}
		if isFloat(v.Typ) {
			return Val{T: Term{app("fp.neg", v.T), v.T.Sort}, Typ: v.Typ}
		}
		if x.mode == ModeBV {
			return Val{T: Term{app("bvneg", v.T), v.T.Sort}, Typ: v.Typ}
		}
		return Val{T: Term{app("-", v.T), "Int"}, Typ: v.Typ}
	case "^":
		if x.mode == ModeBV {
			return Val{T: Term{app("bvnot", v.T), v.T.Sort}, Typ: v.Typ}
		}
		panic(specErr("^x needs mode bv"))
	case "*":
		t := pointee(v.Typ)
		if t == nil {
			panic(specErr("dereference of non-pointer in %s", e.exprString()))
		}
		return Val{T: x.loadPtr(env.cur, v, t), Typ: t}
	}
	panic(specErr("unsupported unary %s", e.Op))
}

func (x *Exec) evalBinary(env *SpecEnv, e EBinary) Val {
	boolT := types.Typ[types.Bool]
	switch e.Op {
	case "&&":
		return Val{T: mkAnd(x.evalBool(env, e.X), x.evalBool(env, e.Y)), Typ: boolT}
	case "||":
		return Val{T: mkOr(x.evalBool(env, e.X), x.evalBool(env, e.Y)), Typ: boolT}
	case "==>":
		return Val{T: mkImp(x.evalBool(env, e.X), x.evalBool(env, e.Y)), Typ: boolT}
	case "<==>":
		return Val{T: mkEq(x.evalBool(env, e.X), x.evalBool(env, e.Y)), Typ: boolT}
	}
	a, b := x.evalVal(env, e.X), x.evalVal(env, e.Y)
	if a.Const != nil && b.Const != nil {
		r := new(big.Int)
		switch e.Op {
		case "+":
			return Val{Const: r.Add(a.Const, b.Const)}
		case "-":
			return Val{Const: r.Sub(a.Const, b.Const)}
		case "*":
			return Val{Const: r.Mul(a.Const, b.Const)}
		case "/":
			return Val{Const: r.Quo(a.Const, b.Const)}
		case "%":
			return Val{Const: r.Rem(a.Const, b.Const)}
		case "<<":
			return Val{Const: r.Lsh(a.Const, uint(b.Const.Int64()))}
		case ">>":
			return Val{Const: r.Rsh(a.Const, uint(b.Const.Int64()))}
		case "&":
			return Val{Const: r.And(a.Const, b.Const)}
		case "|":
			return Val{Const: r.Or(a.Const, b.Const)}
		case "^":
			return Val{Const: r.Xor(a.Const, b.Const)}
		}
	}
	shift := e.Op == "<<" || e.Op == ">>"
	if shift {
		a = x.coerce(a, types.Typ[types.Int])
		if b.Const != nil {
			b = Val{T: x.intConst(b.Const, types.Typ[types.Uint]), Typ: types.Typ[types.Uint]}
		}
	} else {
		a, b = x.unify(a, b)
	}
	var op token.Token
	switch e.Op {
	case "==":
		op = token.EQL
	case "!=":
		op = token.NEQ
	case "<":
		op = token.LSS
	case "<=":
		op = token.LEQ
	case ">":
		op = token.GTR
	case ">=":
		op = token.GEQ
	case "+":
		op = token.ADD
	case "-":
		op = token.SUB
	case "*":
		op = token.MUL
	case "/":
		op = token.QUO
	case "%":
		op = token.REM
	case "&":
		op = token.AND
	case "|":
		op = token.OR
	case "^":
		op = token.XOR
	case "<<":
		op = token.SHL
	case ">>":
		op = token.SHR
	case "&^":
		op = token.AND_NOT
	default:
		panic(specErr("unsupported operator %s", e.Op))
	}
	rt := a.Typ
	switch op {
	case token.EQL, token.NEQ, token.LSS, token.LEQ, token.GTR, token.GEQ:
		rt = boolT
		if a.T.Sort != b.T.Sort {
			panic(specErr("operands of %s have different sorts (%s, %s) in %s", e.Op, a.T.Sort, b.T.Sort, e.exprString()))
		}
	}
	if a.Typ == nil {
		a.Typ = types.Typ[types.Int]
	}
	if b.Typ == nil {
		b.Typ = a.Typ
	}
	// specification arithmetic in int mode is mathematical (no wrap, no overflow
	// obligations); in bv mode it is the machine operation of the operand type.
	if x.mode == ModeInt && isInteger(a.Typ) {
		switch op {
		case token.ADD:
			return Val{T: Term{app("+", a.T, b.T), "Int"}, Typ: a.Typ}
		case token.SUB:
			return Val{T: Term{app("-", a.T, b.T), "Int"}, Typ: a.Typ}
		case token.MUL:
			return Val{T: Term{app("*", a.T, b.T), "Int"}, Typ: a.Typ}
		case token.QUO:
			x.needGoDiv()
			return Val{T: Term{app("godiv", a.T, b.T), "Int"}, Typ: a.Typ}
		case token.REM:
			x.needGoDiv()
			return Val{T: Term{app("gomod", a.T, b.T), "Int"}, Typ: a.Typ}
		}
	}
	if isFloat(a.Typ) && (op == token.EQL || op == token.NEQ) {
		// specification equality on floats is identity of the value (NaN equals NaN,
		// +0 differs from -0), not IEEE comparison: "the same value was stored"
		r := mkEq(a.T, b.T)
		if op == token.NEQ {
			r = mkNot(r)
		}
		return Val{T: r, Typ: boolT}
	}
	t := x.binop(nil, env.cur, op, a, b, a.Typ, b.Typ, rt, nil, token.NoPos)
	return Val{T: t, Typ: rt}
}

func (x *Exec) evalField(env *SpecEnv, e EField) Val {
	// qualified identifier pkg.Name ?
	if id, ok := e.X.(EIdent); ok {
		if _, bound := env.vars[id.Name]; !bound && env.pkg != nil {
			if !x.isLocalName(env, id.Name) {
				for _, imp := range env.pkg.Imports() {
					if imp.Name() == id.Name {
						if o := imp.Scope().Lookup(e.Name); o != nil {
							return x.objVal(env, o)
						}
					}
				}
			}
		}
	}
	base := x.evalVal(env, e.X)
	t := base.Typ
	if t == nil {
		panic(specErr("field of untyped value in %s", e.exprString()))
	}
	if _, isIface := t.Underlying().(*types.Interface); isIface {
		// ghost field of an interface value
		name := x.specIfaceName(env, e.X, t)
		if is, ok := x.DB.Ifaces[name]; ok {
			a := x.ghostAddr(is, e.Name, base)
			return Val{T: x.loadAddr(env.cur, a), Typ: a.T}
		}
		panic(specErr("no interface specification for %s (ghost field %s)", name, e.Name))
	}
	if base.Addr == nil && base.T.Sort == "Slice" && e.Name == "$off" {
		return Val{T: Term{app("s_off", base.T), x.S.Idx()}, Typ: types.Typ[types.Int]}
	}
	if base.Addr == nil && base.T.Sort == "Slice" && e.Name == "$ref" {
		return Val{T: Term{app("s_ref", base.T), "Int"}, Typ: types.Typ[types.Int]}
	}
	// auto-dereference
	if pt := pointee(t); pt != nil {
		su, ok := asStruct(pt)
		if !ok {
			panic(specErr("field %s of non-struct pointer in %s", e.Name, e.exprString()))
		}
		idx, emb := findField(su, e.Name)
		if idx < 0 {
			// a ghost field declared for this struct type ("ghoststruct pkg.T")
			name := types.TypeString(pt, func(p *types.Package) string { return p.Name() })
			if is, ok := x.DB.Ifaces["struct:"+name]; ok {
				a := x.ghostAddr(is, e.Name, base)
				return Val{T: x.loadAddr(env.cur, a), Typ: a.T}
			}
			panic(specErr("no field %s in %s", e.Name, pt))
		}
		_ = emb
		a := x.fieldAddr(base, pt, idx)
		return Val{T: x.loadAddr(env.cur, a), Typ: su.Field(idx).Type()}
	}
	su, ok := asStruct(t)
	if !ok {
		panic(specErr("field %s of non-struct %s in %s", e.Name, t, e.exprString()))
	}
	idx, _ := findField(su, e.Name)
	if idx < 0 {
		panic(specErr("no field %s in %s", e.Name, t))
	}
	ss := x.S.SortOf(t)
	return Val{T: Term{app(x.S.FieldSel(ss, su, idx), base.T), x.S.SortOf(su.Field(idx).Type())}, Typ: su.Field(idx).Type()}
}

func (x *Exec) isLocalName(env *SpecEnv, name string) bool {
	if env.fr == nil {
		return false
	}
	for _, p := range env.fr.fn.Params {
		if p.Name() == name {
			return true
		}
	}
	return len(x.varCandidates(env.fr, name)) > 0
}

func findField(su *types.Struct, name string) (int, bool) {
	for i := 0; i < su.NumFields(); i++ {
		if su.Field(i).Name() == name {
			return i, su.Field(i).Embedded()
		}
	}
	return -1, false
}

func (x *Exec) evalIndex(env *SpecEnv, e EIndex) Val {
	base := x.evalVal(env, e.X)
	i := x.coerce(x.evalVal(env, e.I), types.Typ[types.Int])
	it := x.toIdx(i.T, i.Typ)
	switch u := base.Typ.Underlying().(type) {
	case *types.Slice:
		a := x.elemAddr(base.T, it, u.Elem())
		return Val{T: x.loadAddr(env.cur, a), Typ: u.Elem()}
	case *types.Array:
		return Val{T: mkSelect(base.T, it, x.S.SortOf(u.Elem())), Typ: u.Elem()}
	case *types.Map:
		dn, ds, vn, vs := x.mapHeaps(u)
		_ = dn
		_ = ds
		ksrt, esrt := x.S.SortOf(u.Key()), x.S.SortOf(u.Elem())
		vh := x.heapGet(env.cur, vn, vs)
		k := x.coerce(x.evalVal(env, e.I), u.Key())
		return Val{T: Term{app("select", Term{app("select", vh, base.T), arraySort(ksrt, esrt)}, k.T), esrt}, Typ: u.Elem()}
	case *types.Pointer:
		if arr, ok := u.Elem().Underlying().(*types.Array); ok {
			whole := x.loadPtr(env.cur, base, u.Elem())
			return Val{T: mkSelect(whole, it, x.S.SortOf(arr.Elem())), Typ: arr.Elem()}
		}
	}
	panic(specErr("indexing %s in %s", base.Typ, e.exprString()))
}

func (x *Exec) evalQuant(env *SpecEnv, e EQuant) Val {
	if !e.Forall && env.witness != nil {
		all := true
		for _, p := range e.Vars {
			if _, ok := env.witness[p.Name]; !ok {
				all = false
			}
		}
		if all {
			// the contract names a witness for each bound variable: prove the body for it
			n := env
			for _, p := range e.Vars {
				t := x.resolveType(env, p.Type)
				w := x.coerce(env.witness[p.Name], t)
				w.Typ = t
				n = n.with(p.Name, w)
			}
			return Val{T: x.evalBool(n, e.Body), Typ: types.Typ[types.Bool]}
		}
	}
	x.inQuant++
	defer func() {
		x.inQuant--
		if x.inQuant == 0 && len(x.pendingAxioms) > 0 {
			for _, a := range x.pendingAxioms {
				x.emit(a)
			}
			x.pendingAxioms = nil
		}
	}()
	type bv struct {
		p    Param
		t    types.Type
		name string
		srt  string
	}
	var vars []bv
	for _, p := range e.Vars {
		t := x.resolveType(env, p.Type)
		name := fmt.Sprintf("%s!q%d", sanitize(p.Name), x.count("q"))
		vars = append(vars, bv{p, t, name, x.S.SortOf(t)})
	}
	// Pass A: evaluate with plain variables, recording which slice offset each
	// integer variable is used to index from. Pass B re-evaluates with the
	// variable shifted by that offset, so that element accesses read
	// (select arr p) for the bound p itself: quantifier patterns then contain
	// no arithmetic and E-matching is robust.
	saved := x.idxUses
	x.idxUses = map[string]map[string]bool{}
	for k, m := range saved {
		x.idxUses[k] = m // uses of outer bound variables inside this body still count for them
	}
	n := env
	for _, v := range vars {
		n = n.with(v.p.Name, Val{T: Term{v.name, v.srt}, Typ: v.t})
		x.idxUses[v.name] = map[string]bool{}
	}
	body := x.evalBool(n, e.Body)
	uses := x.idxUses
	x.idxUses = saved
	shifted := false
	n = env
	var binders []string
	var guards []Term
	for _, v := range vars {
		val := Val{T: Term{v.name, v.srt}, Typ: v.t}
		if isInteger(v.t) && len(uses[v.name]) == 1 {
			var off string
			for o := range uses[v.name] {
				off = o
			}
			dep := false
			for _, w := range vars {
				if strings.Contains(off, w.name) {
					dep = true
				}
			}
			if off != "0" && !strings.HasPrefix(off, "(_ bv0 ") && !dep && v.srt == x.S.Idx() {
				if x.mode == ModeBV {
					val.T = Term{fmt.Sprintf("(bvsub %s %s)", v.name, off), v.srt}
				} else {
					val.T = Term{fmt.Sprintf("(- %s %s)", v.name, off), v.srt}
				}
				shifted = true
			}
		}
		binders = append(binders, fmt.Sprintf("(%s %s)", v.name, v.srt))
		if !isInteger(v.t) {
			// integer bound variables are mathematical integers (specification
			// quantifiers range over all of Int; bodies guard their own index ranges)
			guards = append(guards, x.typeInv(val.T, v.t, 0))
		}
		n = n.with(v.p.Name, val)
	}
	if shifted {
		saved := x.idxUses
		x.idxUses = nil
		body = x.evalBool(n, e.Body)
		x.idxUses = saved
	}
	// A bound variable that never indexes a slice directly (e.g. it only feeds a
	// computed position) gives the solver no array-select pattern to instantiate on.
	// Such variables get a marker trg(v): an uninterpreted predicate axiomatised to be
	// true everywhere, so it changes nothing logically, but a universally quantified
	// hypothesis then has the pattern trg(v) and a negated goal supplies trg(skolem).
	var trgs []Term
	allTrg := true
	for _, v := range vars {
		if len(uses[v.name]) > 0 {
			allTrg = false
			continue
		}
		fn := "trg$" + sortTag(v.srt)
		if !x.ufDecl[fn] {
			x.ufDecl[fn] = true
			x.S.decls = append(x.S.decls, fmt.Sprintf("(declare-fun %s (%s) Bool)", fn, v.srt),
				fmt.Sprintf("(assert (forall ((v!t %s)) (! (%s v!t) :pattern ((%s v!t)))))", v.srt, fn, fn))
		}
		trgs = append(trgs, Term{fmt.Sprintf("(%s %s)", fn, v.name), "Bool"})
	}
	g := mkAnd(append(guards, trgs...)...)
	pat := ""
	if allTrg && len(trgs) > 0 {
		var ps []string
		for _, t := range trgs {
			ps = append(ps, t.S)
		}
		pat = " :pattern (" + strings.Join(ps, " ") + ")"
	}
	if e.Forall {
		b := mkImp(g, body).S
		if pat != "" {
			b = "(! " + b + pat + ")"
		}
		return Val{T: Term{fmt.Sprintf("(forall (%s) %s)", strings.Join(binders, " "), b), "Bool"}, Typ: types.Typ[types.Bool]}
	}
	return Val{T: Term{fmt.Sprintf("(exists (%s) %s)", strings.Join(binders, " "), mkAnd(g, body).S), "Bool"}, Typ: types.Typ[types.Bool]}
}

func (x *Exec) evalCall(env *SpecEnv, e ECall) Val {
	switch e.Fun {
	case "len", "cap":
		v := x.evalVal(env, e.Args[0])
		it := types.Typ[types.Int]
		switch u := v.Typ.Underlying().(type) {
		case *types.Slice:
			_, _, ln, cp := x.sliceParts(v.T)
			if e.Fun == "cap" {
				return Val{T: cp, Typ: it}
			}
			return Val{T: ln, Typ: it}
		case *types.Basic:
			if u.Info()&types.IsString != 0 {
				return Val{T: x.intToIdx(Term{app("strlen", v.T), "Int"}), Typ: it}
			}
		case *types.Array:
			return Val{T: x.S.IdxLit(u.Len()), Typ: it}
		case *types.Map:
			if e.Fun == "len" {
				return Val{T: x.intToIdx(x.mapLen(env.cur, v.T, u)), Typ: it}
			}
		}
		panic(specErr("len of %s", v.Typ))
	case "int64", "uint64", "int", "uint32", "int32", "uint8", "byte", "uint", "float64", "string":
		v := x.evalVal(env, e.Args[0])
		to := x.resolveType(env, e.Fun)
		if v.Const != nil {
			return x.coerce(v, to)
		}
		return Val{T: x.convertTerm(env.cur, v.T, v.Typ, to), Typ: to}
	case "math":
		// math(e): reinterpret a machine integer as a mathematical one (identity in int mode)
		return x.evalVal(env, e.Args[0])
	case "min", "max":
		a, b := x.unify(x.evalVal(env, e.Args[0]), x.evalVal(env, e.Args[1]))
		var lt Term
		if x.mode == ModeBV {
			if isUnsigned(a.Typ) {
				lt = Term{app("bvult", a.T, b.T), "Bool"}
			} else {
				lt = Term{app("bvslt", a.T, b.T), "Bool"}
			}
		} else {
			lt = Term{app("<", a.T, b.T), "Bool"}
		}
		if e.Fun == "min" {
			return Val{T: mkIte(lt, a.T, b.T), Typ: a.Typ}
		}
		return Val{T: mkIte(lt, b.T, a.T), Typ: a.Typ}
	}
	switch e.Fun {
	case "addr":
		// addr(s[i]): the pointer value &s[i] (the same opaque reference the code gets
		// when the address of a slice element escapes)
		ix, ok := e.Args[0].(EIndex)
		if !ok {
			panic(specErr("addr(): argument must be an element s[i]"))
		}
		base := x.evalVal(env, ix.X)
		sl, isSlice := base.Typ.Underlying().(*types.Slice)
		if !isSlice {
			panic(specErr("addr(): %s is not a slice", ix.X.exprString()))
		}
		i := x.coerce(x.evalVal(env, ix.I), types.Typ[types.Int])
		a := x.elemAddr(base.T, x.toIdx(i.T, i.Typ), sl.Elem())
		fn := "elemptr$" + x.S.typeTag(a.RootT)
		x.declUF(fn, fmt.Sprintf("(Int %s) Int", x.S.Idx()))
		return Val{T: Term{app(fn, a.Ref, a.Idx), "Int"}, Typ: types.NewPointer(sl.Elem())}
	case "locked", "rlocked", "unlocked":
		// ghost state of a mutex field: held exclusively / held at least shared / not held
		held := x.lockStateOf(env, e.Args[0])
		var t Term
		switch e.Fun {
		case "locked":
			t = mkEq(held, intLit(2))
		case "rlocked":
			t = Term{app(">=", held, intLit(1)), "Bool"}
		default:
			t = mkEq(held, intLit(0))
		}
		return Val{T: t, Typ: types.Typ[types.Bool]}
	case "entry":
		// entry(p): the value parameter p had when the function was entered (old(p) only
		// switches the heap state: a parameter the code reassigns reads as its current value)
		if id, ok := e.Args[0].(EIdent); ok {
			if v, ok := env.vars[id.Name]; ok {
				return v // at a call site: the argument
			}
		}
		if id, ok := e.Args[0].(EIdent); ok && env.fr != nil {
			for _, p := range env.fr.fn.Params {
				if p.Name() == id.Name {
					if v, ok := env.fr.vals[p]; ok {
						return v
					}
				}
			}
		}
		panic(specErr("entry(): argument must name a parameter of the function"))
	case "stablysorted":
		// stablysorted(s): the last sort applied to s's backing array was sort.Stable
		v := x.evalVal(env, e.Args[0])
		if v.T.Sort != "Slice" {
			panic(specErr("stablysorted(): argument must be a slice"))
		}
		cell := stableSortCell(Term{app("s_ref", v.T), "Int"})
		return Val{T: mkEq(x.loadAddr(env.cur, cell), intLit(1)), Typ: types.Typ[types.Bool]}
	case "reached":
		// reached(G): this execution passed the program point of "bind [G @ ...]"
		// (false when no execution does)
		id, ok := e.Args[0].(EIdent)
		if !ok {
			panic(specErr("reached(): argument must name a bind"))
		}
		if g, ok := x.ghostReached[id.Name]; ok {
			return Val{T: g, Typ: types.Typ[types.Bool]}
		}
		return Val{T: tFalse, Typ: types.Typ[types.Bool]}
	case "inmap":
		// inmap(m, k): key k is present in the Go map m
		m := x.evalVal(env, e.Args[0])
		mt, ok := m.Typ.Underlying().(*types.Map)
		if !ok {
			panic(specErr("inmap: first argument is not a map"))
		}
		dn, ds, _, _ := x.mapHeaps(mt)
		d := x.heapGet(env.cur, dn, ds)
		k := x.coerce(x.evalVal(env, e.Args[1]), mt.Key())
		ksrt := x.S.SortOf(mt.Key())
		in := mkAnd(mkNot(mkEq(m.T, intLit(0))), Term{app("select", Term{app("select", d, m.T), arraySort(ksrt, "Bool")}, k.T), "Bool"})
		return Val{T: in, Typ: types.Typ[types.Bool]}
	case "has", "add", "del":
		// ghost sets: membership, insertion, removal
		s := x.evalVal(env, e.Args[0])
		el, ok := isSetType(s.Typ)
		if !ok {
			panic(specErr("%s: first argument is not a set", e.Fun))
		}
		k := x.coerce(x.evalVal(env, e.Args[1]), el)
		switch e.Fun {
		case "has":
			return Val{T: Term{app("select", s.T, k.T), "Bool"}, Typ: types.Typ[types.Bool]}
		case "add":
			return Val{T: mkStore(s.T, k.T, tTrue), Typ: s.Typ}
		default:
			return Val{T: mkStore(s.T, k.T, tFalse), Typ: s.Typ}
		}
	case "fresh":
		// fresh(x): the object / backing array x refers to was allocated after the
		// function under contract was entered
		v := x.evalVal(env, e.Args[0])
		ref := v.T
		if v.T.Sort == "Slice" {
			ref = Term{app("s_ref", v.T), "Int"}
		} else if v.T.Sort == "Iface" {
			ref = Term{app("i_val", v.T), "Int"}
		}
		return Val{T: Term{app(">", ref, x.entry.Alloc), "Bool"}, Typ: types.Typ[types.Bool]}
	case "mulfits", "addfits", "subfits":
		// the mathematical result of the operation on the two operands fits their Go type
		a, b := x.unify(x.evalVal(env, e.Args[0]), x.evalVal(env, e.Args[1]))
		bt := types.Typ[types.Bool]
		if x.mode == ModeBV {
			uns := isUnsigned(a.Typ)
			var t string
			switch {
			case e.Fun == "mulfits" && uns:
				t = app("bvumul_noovfl", a.T, b.T)
			case e.Fun == "mulfits":
				t = fmt.Sprintf("(and (bvsmul_noovfl %s %s) (bvsmul_noudfl %s %s))", a.T.S, b.T.S, a.T.S, b.T.S)
			default:
				// widen by one bit and compare
				w, _ := intWidth(a.Typ.Underlying().(*types.Basic))
				ext := "sign_extend"
				if uns {
					ext = "zero_extend"
				}
				op := "bvadd"
				if e.Fun == "subfits" {
					op = "bvsub"
				}
				wide := fmt.Sprintf("(%s ((_ %s 1) %s) ((_ %s 1) %s))", op, ext, a.T.S, ext, b.T.S)
				narrow := fmt.Sprintf("((_ %s 1) (%s %s %s))", ext, op, a.T.S, b.T.S)
				_ = w
				t = fmt.Sprintf("(= %s %s)", wide, narrow)
			}
			return Val{T: Term{t, "Bool"}, Typ: bt}
		}
		op := map[string]string{"mulfits": "*", "addfits": "+", "subfits": "-"}[e.Fun]
		return Val{T: inRange(Term{app(op, a.T, b.T), "Int"}, a.Typ), Typ: bt}
	}
	if env.fr != nil {
		for _, p := range env.fr.fn.Params {
			if sig, ok := p.Type().Underlying().(*types.Signature); ok && p.Name() == e.Fun {
				var args []Val
				for i, a := range e.Args {
					av := x.evalVal(env, a)
					if i < sig.Params().Len() {
						av = x.coerce(av, sig.Params().At(i).Type())
					}
					args = append(args, av)
				}
				return x.ufCall(p.Name(), args, sig, nil)
			}
		}
	}
	if u, ok := x.DB.UFs[e.Fun]; ok {
		if len(u.Params) != len(e.Args) {
			panic(specErr("uf %s takes %d arguments", e.Fun, len(u.Params)))
		}
		uenv := &SpecEnv{x: x}
		if sp, ok := x.P.SSA[u.Pkg]; ok {
			uenv.pkg = sp.Pkg
		} else {
			uenv.pkg = env.pkg
		}
		var sorts []string
		var terms []Term
		for i, prm := range u.Params {
			pt := x.resolveType(uenv, prm.Type)
			a := x.coerce(x.evalVal(env, e.Args[i]), pt)
			if sl, isSlice := pt.Underlying().(*types.Slice); isSlice {
				// by content: (backing array, offset, length) in the current state
				es := x.S.SortOf(sl.Elem())
				hn, hs := x.S.ElemHeapT(sl.Elem())
				h := x.heapGet(env.cur, hn, hs)
				ref, off, ln, _ := x.sliceParts(a.T)
				asrt := arraySort(x.S.Idx(), es)
				sorts = append(sorts, asrt, x.S.Idx(), x.S.Idx())
				terms = append(terms, Term{app("select", h, ref), asrt}, off, ln)
				continue
			}
			sorts = append(sorts, x.S.SortOf(pt))
			terms = append(terms, a.T)
		}
		rt := x.resolveType(uenv, u.Ret)
		name := "uf$" + sanitize(u.Name)
		x.declUF(name, fmt.Sprintf("(%s) %s", strings.Join(sorts, " "), x.S.SortOf(rt)))
		return Val{T: Term{app(name, terms...), x.S.SortOf(rt)}, Typ: rt}
	}
	if p, ok := x.DB.Preds[e.Fun]; ok {
		if env.predDepth > 8 {
			panic(specErr("predicate expansion too deep at %s", e.Fun))
		}
		if len(p.Params) != len(e.Args) {
			panic(specErr("predicate %s takes %d arguments", e.Fun, len(p.Params)))
		}
		n := *env
		n.vars = map[string]Val{}
		for k, v := range env.vars {
			n.vars[k] = v
		}
		n.predDepth++
		penv := &n
		if p.Pkg != "" {
			if sp, ok := x.P.SSA[p.Pkg]; ok {
				penv.pkg = sp.Pkg
			}
		}
		for i, prm := range p.Params {
			t := x.resolveType(penv, prm.Type)
			a := x.coerce(x.evalVal(env, e.Args[i]), t)
			n.vars[prm.Name] = Val{T: a.T, Typ: t, Addr: a.Addr}
		}
		// predicate bodies see only their parameters (plus globals), not the caller's locals
		n.fr = nil
		n.at = nil
		return x.evalVal(penv, p.Body)
	}
	// a real function of the package: inline its body (loop-free) as a summary
	if env.pkg != nil {
		if fn := x.findPkgFunc(env.pkg, e.Fun); fn != nil {
			var args []Val
			for i, a := range e.Args {
				av := x.evalVal(env, a)
				if i < len(fn.Params) {
					av = x.coerce(av, fn.Params[i].Type())
				}
				args = append(args, av)
			}
			if ct := x.contractFor(fn); ct != nil && ct.Pure {
				return x.ufCall("lib."+ShortKey(FuncKey(fn)), args, fn.Signature, env.cur)
			}
			st := env.cur.clone()
			st.Guard = tTrue
			rs := x.inlineCall(st, fn, args, true)
			if len(rs) == 1 {
				return rs[0]
			}
			return Val{Tuple: rs}
		}
	}
	panic(specErr("unknown function or predicate %q", e.Fun))
}

func (x *Exec) findPkgFunc(pkg *types.Package, name string) *ssa.Function {
	sp := x.P.Prog.Package(pkg)
	if sp == nil {
		return nil
	}
	return sp.Func(name)
}

func (x *Exec) evalMethod(env *SpecEnv, e EMethod) Val {
	// pkg.Func(args)?
	if id, ok := e.X.(EIdent); ok {
		if _, bound := env.vars[id.Name]; !bound && !x.isLocalName(env, id.Name) && env.pkg != nil {
			for _, imp := range append(env.pkg.Imports(), env.pkg) {
				if imp.Name() == id.Name {
					if tn, ok := imp.Scope().Lookup(e.Name).(*types.TypeName); ok && len(e.Args) == 1 {
						// conversion to a named type of another package: pkg.T(x)
						v := x.evalVal(env, e.Args[0])
						if v.Const != nil || v.IsNil {
							return x.coerce(v, tn.Type())
						}
						return Val{T: x.convertTerm(env.cur, v.T, v.Typ, tn.Type()), Typ: tn.Type()}
					}
					if h, ok := libCalls[imp.Path()+"."+e.Name]; ok {
						// a library function with a built-in model (e.g. time.Unix)
						if fo, isFn := imp.Scope().Lookup(e.Name).(*types.Func); isFn {
							sig := fo.Type().(*types.Signature)
							var args []Val
							for i, a := range e.Args {
								av := x.evalVal(env, a)
								if i < sig.Params().Len() {
									av = x.coerce(av, sig.Params().At(i).Type())
								}
								args = append(args, av)
							}
							var rt types.Type = sig.Results()
							if sig.Results().Len() == 1 {
								rt = sig.Results().At(0).Type()
							}
							return h(x, nil, env.cur, nil, nil, args, rt)
						}
					}
					if fn := x.findPkgFunc(imp, e.Name); fn != nil && (fn.Blocks != nil || x.isPureContract(fn)) {
						var args []Val
						for i, a := range e.Args {
							av := x.evalVal(env, a)
							if i < len(fn.Params) {
								av = x.coerce(av, fn.Params[i].Type())
							}
							args = append(args, av)
						}
						if ct := x.contractFor(fn); ct != nil && ct.Pure {
							// a function under a "pure" contract is the same uninterpreted
							// function of its arguments in specifications as at its call sites
							return x.ufCall("lib."+ShortKey(FuncKey(fn)), args, fn.Signature, env.cur)
						}
						st := env.cur.clone()
						st.Guard = tTrue
						rs := x.inlineCall(st, fn, args, true)
						if len(rs) == 1 {
							return rs[0]
						}
						return Val{Tuple: rs}
					}
				}
			}
		}
	}
	recv := x.evalVal(env, e.X)
	// spec-level methods on time.Time and similar abstract values
	if isTime(recv.Typ) {
		return x.timeMethodSpec(env, recv, e)
	}
	// pure method of an interface with a specification: the same uninterpreted function
	// the code's invoke uses
	if recv.Typ != nil {
		if it, ok := recv.Typ.Underlying().(*types.Interface); ok {
			name := types.TypeString(recv.Typ, func(p *types.Package) string { return p.Name() })
			if is, ok := x.DB.Ifaces[name]; ok {
				if ms, ok := is.Methods[e.Name]; ok && ms.Pure {
					for i := 0; i < it.NumMethods(); i++ {
						if m := it.Method(i); m.Name() == e.Name {
							sig := m.Type().(*types.Signature)
							var args []Val
							for k, a := range e.Args {
								av := x.evalVal(env, a)
								if k < sig.Params().Len() {
									av = x.coerce(av, sig.Params().At(k).Type())
								}
								args = append(args, av)
							}
							return x.ifaceUF(is, ms, recv, args, sig, nil)
						}
					}
				}
			}
		}
	}
	// real method: find it in the method set and inline
	if recv.Typ != nil {
		ms := x.P.Prog.MethodSets.MethodSet(recv.Typ)
		for i := 0; i < ms.Len(); i++ {
			sel := ms.At(i)
			if sel.Obj().Name() == e.Name {
				fn := x.P.Prog.MethodValue(sel)
				if fn != nil && fn.Blocks == nil {
					// a method of a dependency (no body loaded): usable when assumed pure
					if ct := x.contractFor(fn); ct != nil && ct.Pure {
						args := []Val{recv}
						for _, a := range e.Args {
							args = append(args, x.evalVal(env, a))
						}
						return x.ufCall("lib."+ShortKey(FuncKey(fn)), args, fn.Signature, env.cur)
					}
				}
				if fn != nil && fn.Blocks != nil {
					args := []Val{recv}
					for i, a := range e.Args {
						av := x.evalVal(env, a)
						if i+1 < len(fn.Params) {
							av = x.coerce(av, fn.Params[i+1].Type())
						}
						args = append(args, av)
					}
					if ct := x.contractFor(fn); ct != nil && ct.Pure {
						return x.ufCall("lib."+ShortKey(FuncKey(fn)), args, fn.Signature, env.cur)
					}
					st := env.cur.clone()
					st.Guard = tTrue
					rs := x.inlineCall(st, fn, args, true)
					if len(rs) == 1 {
						return rs[0]
					}
					return Val{Tuple: rs}
				}
			}
		}
	}
	panic(specErr("unknown method %s in %s", e.Name, e.exprString()))
}

func (x *Exec) globalRead(st *State, a *Addr) Term {
	return x.loadAddr(st, a)
}
