package main

import (
	"fmt"
	"go/types"
	"strings"
)

// Sentinel errors: a package-level variable of interface or pointer type whose
// name starts with "Err" (or is "EOF") is treated as an immutable, non-nil
// constant, distinct from every other such variable. (Assumption, listed in the
// trusted base: nobody reassigns sentinel errors.)
func (x *Exec) sentinel(a *Addr) (Term, bool) {
	name := a.Global
	short := name
	if k := strings.LastIndex(short, "."); k >= 0 {
		short = short[k+1:]
	}
	if !(strings.HasPrefix(short, "Err") || short == "EOF") {
		return Term{}, false
	}
	var isIface bool
	switch a.RootT.Underlying().(type) {
	case *types.Interface:
		isIface = true
	case *types.Pointer:
	default:
		return Term{}, false
	}
	x.assumed["sentinel error variables (Err*, EOF) are immutable, non-nil and pairwise distinct"] = true
	id, ok := x.S.sentinels[name]
	if !ok {
		id = len(x.S.sentinels) + 1
		x.S.sentinels[name] = id
		c := fmt.Sprintf("sent$%s", sanitize(name))
		x.S.decls = append(x.S.decls, fmt.Sprintf("(declare-const %s Int)", c), fmt.Sprintf("(assert (> %s 0))", c))
		for other := range x.S.sentinels {
			if other != name {
				x.S.decls = append(x.S.decls, fmt.Sprintf("(assert (not (= %s sent$%s)))", c, sanitize(other)))
			}
		}
	}
	c := Term{fmt.Sprintf("sent$%s", sanitize(name)), "Int"}
	if x.inQuant == 0 && x.entry != nil && !x.sentAssumed[name] {
		// it existed before the function was entered
		x.sentAssumed[name] = true
		x.assume(Term{app("<=", c, x.entry.Alloc), "Bool"})
	}
	if isIface {
		return Term{fmt.Sprintf("(mk_iface %d %s)", 900000+id, c.S), "Iface"}, true
	}
	return c, true
}
