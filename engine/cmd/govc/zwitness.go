package main

import (
	"go/types"
	"strings"
)

// evalWitness evaluates a witness expression at a return. A witness names locals of
// the function; at a return where one of them is not defined (an early return, or a
// return the code gained after the contract was written) the witness is an arbitrary
// integer instead: the existential then has to hold for an arbitrary value, which is
// harmless where the clause is vacuous at that return and fails as an ordinary
// obligation where it is not -- instead of making the whole function unverifiable.
func (x *Exec) evalWitness(env *SpecEnv, e Expr) (v Val) {
	defer func() {
		if r := recover(); r != nil {
			te, ok := r.(toolErr)
			if ok && strings.Contains(string(te), "$i used outside a range loop") {
				// a return outside the loop the witness counts in: arbitrary there
				v = x.freshVal("witness?", types.Typ[types.Int], env.cur)
				return
			}
			if !ok || !strings.Contains(string(te), "unknown identifier") {
				panic(r)
			}
			x.lookupAtEnd = true
			if m := unknownIdentRe.FindStringSubmatch(string(te)); m != nil {
				if x.unresolvedHints == nil {
					x.unresolvedHints = map[string]bool{}
				}
				x.unresolvedHints[m[1]] = true
			}
			v = x.freshVal("witness?", types.Typ[types.Int], env.cur)
		}
	}()
	return x.evalVal(env, e)
}
