package main

import (
	"fmt"
	"regexp"
	"sort"
	"strings"

	"golang.org/x/tools/go/ssa"
)

// Rename tolerance. Loop invariants, variants and existential witnesses are proof hints
// that name locals of the code. When a local has been renamed the hint no longer binds
// ("unknown identifier"), although nothing about the property changed. rebindVerify then
// searches for a binding of the unknown names to locals the contract does not mention
// and accepts one only if the function generates and EVERY obligation discharges under
// it -- any inductive invariant is as good as another, so this is sound. Names used in
// requires/ensures/assert clauses are specification, not hints: they are never rebound.

var currentRename map[string]string

var unknownIdentRe = regexp.MustCompile(`unknown identifier "([^"]+)"`)

func hintOnly(ct *Contract, name string) bool {
	word := regexp.MustCompile(`(^|[^A-Za-z0-9_.$])` + regexp.QuoteMeta(name) + `($|[^A-Za-z0-9_])`)
	for _, c := range ct.Requires {
		if word.MatchString(c.Text) {
			return false
		}
	}
	for _, c := range ct.Ensures {
		if _, isWit := ct.Witness[c.Name]; isWit {
			continue // the clause is checked with the witnesses; the names inside it that are unknown are witness names
		}
		if word.MatchString(c.Text) {
			return false
		}
	}
	for _, c := range ct.Asserts {
		if word.MatchString(c.Text) {
			return false
		}
	}
	return true
}

func contractText(ct *Contract) string {
	var b strings.Builder
	for _, c := range ct.Requires {
		b.WriteString(c.Text + "\n")
	}
	for _, c := range ct.Ensures {
		b.WriteString(c.Text + "\n")
	}
	for _, c := range ct.Asserts {
		b.WriteString(c.Text + "\n")
	}
	for _, ws := range ct.Witness {
		for _, w := range ws {
			b.WriteString(w.E.exprString() + "\n")
		}
	}
	for _, l := range ct.Loops {
		for _, c := range l.Invariants {
			b.WriteString(c.Text + "\n")
		}
		if l.Decreases != nil {
			b.WriteString(l.Decreases.Text + "\n")
		}
		for _, m := range l.Modifies {
			b.WriteString(m.Text + "\n")
		}
	}
	return b.String()
}

func localNames(fn *ssa.Function) []string {
	seen := map[string]bool{}
	for _, b := range fn.Blocks {
		for _, ins := range b.Instrs {
			if d, ok := ins.(*ssa.DebugRef); ok {
				if id, ok := d.Expr.(interface{ String() string }); ok {
					_ = id
				}
				if o := d.Object(); o != nil {
					seen[o.Name()] = true
				}
			}
		}
	}
	for _, p := range fn.Params {
		seen[p.Name()] = true
	}
	var out []string
	for n := range seen {
		if n != "" && n != "_" {
			out = append(out, n)
		}
	}
	sort.Strings(out)
	return out
}

// rebindVerify returns a verified result under some rebinding, or nil.
func rebindVerify(P *Program, db *SpecDB, fn *ssa.Function, ct *Contract, first *FuncResult, timeout int) *FuncResult {
	text := contractText(ct)
	var cands []string
	for _, n := range localNames(fn) {
		word := regexp.MustCompile(`(^|[^A-Za-z0-9_.$])` + regexp.QuoteMeta(n) + `($|[^A-Za-z0-9_])`)
		if !word.MatchString(text) {
			cands = append(cands, n)
		}
	}
	attempts := 0
	isLocal := map[string]bool{}
	for _, n := range localNames(fn) {
		isLocal[n] = true
	}
	var search func(bind map[string]string, res *FuncResult) *FuncResult
	var tryNames func(unknown string, bind map[string]string) *FuncResult
	search = func(bind map[string]string, res *FuncResult) *FuncResult {
		if res.Err == nil {
			DischargeAll(res.Obls, timeout, false, 16)
			failed := false
			for _, o := range res.Obls {
				if o.Cover || o.MustFail {
					continue
				}
				if o.Result != "unsat" {
					failed = true
				}
			}
			if failed {
				// a witness that names a local which no longer exists is evaluated as an
				// arbitrary value (see evalWitness): try to rebind such a name
				for _, h := range res.UnresolvedHints {
					if _, already := bind[h]; already || !hintOnly(ct, h) || isLocal[h] {
						continue // (a name that is still a local is merely not defined at that return)
					}
					return tryNames(h, bind)
				}
				return nil
			}
			var parts []string
			for k, v := range bind {
				parts = append(parts, k+"->"+v)
			}
			sort.Strings(parts)
			res.Assumed = append(res.Assumed, "proof hints of "+res.Key+" rebound to renamed locals ("+strings.Join(parts, ", ")+"): accepted because the function generates and every obligation discharges under this binding")
			return res
		}
		m := unknownIdentRe.FindStringSubmatch(res.Err.Error())
		if m == nil || !hintOnly(ct, m[1]) || isLocal[m[1]] {
			return nil
		}
		if _, already := bind[m[1]]; already {
			return nil
		}
		return tryNames(m[1], bind)
	}
	tryNames = func(unknown string, bind map[string]string) *FuncResult {
		for _, c := range cands {
			used := false
			for _, v := range bind {
				if v == c {
					used = true
				}
			}
			if used || attempts >= 8 {
				continue
			}
			attempts++
			nb := map[string]string{}
			for k, v := range bind {
				nb[k] = v
			}
			nb[unknown] = c
			currentRename = nb
			r := VerifyFunc(P, db, fn, ct)
			currentRename = nil
			if out := search(nb, r); out != nil {
				return out
			}
		}
		return nil
	}
	out := search(map[string]string{}, first)
	if out != nil {
		fmt.Printf("NOTE: %s: contract hints rebound to renamed locals\n", out.Key)
	}
	return out
}
