package main

import (
	"fmt"
	"strings"

	"golang.org/x/tools/go/ssa"
)

// checkAsserts proves the contract's "assert [label @ snippet] e" clauses: when the
// top-level function's execution reaches the first instruction of a source line that
// contains the snippet, e must hold in the state at that point (locals as defined so
// far). The obligation is contract-level: it is pinned by name in the golden list, so an
// anchor line that disappears is reported.
func (x *Exec) checkAsserts(fr *Frame, b *ssa.BasicBlock, st *State, ins ssa.Instruction) {
	if !fr.top || x.contract == nil || len(x.contract.Asserts) == 0 || !ins.Pos().IsValid() {
		return
	}
	if _, isDbg := ins.(*ssa.DebugRef); isDbg {
		return
	}
	line := x.lineText(ins.Pos())
	pos := x.P.Prog.Fset.Position(ins.Pos())
	for k, as := range x.contract.Asserts {
		if !strings.Contains(line, as.At) {
			continue
		}
		key := fmt.Sprintf("%d@%s:%d@%p", k, pos.Filename, pos.Line, b)
		if x.assertSeen == nil {
			x.assertSeen = map[string]bool{}
		}
		if x.assertSeen[key] {
			continue
		}
		x.assertSeen[key] = true
		label := as.Name
		if label == "" {
			label = fmt.Sprintf("%d", k+1)
		}
		nth := x.count("assertline#" + label + "#" + fmt.Sprint(pos.Line))
		_ = nth
		occ := x.count("assert-at#" + label)
		if as.AtN != 0 && occ != as.AtN {
			continue
		}
		env := x.envAt(fr, b, st)
		saved := x.lookupAtEnd
		x.lookupAtEnd = true
		t := x.evalBool(env, as.E)
		x.lookupAtEnd = saved
		txt := strings.Join(strings.Fields(line), "")
		if len(txt) > 32 {
			txt = txt[:32]
		}
		name := fmt.Sprintf("at#%s@[%s]", label, txt)
		name = fmt.Sprintf("%s#%d", name, x.count(name))
		x.oblige("assert-at", name, st.Guard, t, "assertion at a program point: "+as.Text, ins.Pos(), false)
	}
}
