package main

import (
	"fmt"
	"strings"

	"golang.org/x/tools/go/ssa"
)

// checkAsserts proves the contract's "assert [label @ snippet] e" clauses: when the
// top-level function's execution reaches the first instruction of a source line that
// contains the snippet, e must hold in the state at that point (locals as defined so
// far). The obligation is contract-level: it is pinned by name in the golden list, so an
// anchor line that disappears is reported.
func (x *Exec) checkAsserts(fr *Frame, b *ssa.BasicBlock, st *State, ins ssa.Instruction) {
	if !fr.top || x.contract == nil || len(x.contract.Asserts)+len(x.contract.Binds) == 0 || !ins.Pos().IsValid() {
		return
	}
	if _, isDbg := ins.(*ssa.DebugRef); isDbg {
		return
	}
	line := x.lineText(ins.Pos())
	pos := x.P.Prog.Fset.Position(ins.Pos())
	for k, bd := range x.contract.Binds {
		if strings.HasPrefix(bd.At, "after ") || !strings.Contains(line, bd.At) {
			continue
		}
		key := fmt.Sprintf("bind%d@%s:%d@%p", k, pos.Filename, pos.Line, b)
		if x.assertSeen == nil {
			x.assertSeen = map[string]bool{}
		}
		if x.assertSeen[key] {
			continue
		}
		x.assertSeen[key] = true
		if occ := x.count("bind-at#" + bd.Name); bd.AtN != 0 && occ != bd.AtN {
			continue
		}
		env := x.envAt(fr, b, st)
		saved := x.lookupAtEnd
		x.lookupAtEnd, x.lookupLimited, x.lookupLimit = true, true, instrIndex(ins)
		v := x.evalVal(env, bd.E)
		x.lookupAtEnd, x.lookupLimited = saved, false
		if v.T.S != "" {
			v.T = x.declareEq("ghost_"+bd.Name, v.T)
		}
		x.ghost[bd.Name] = v
		x.noteReached(bd.Name, st.Guard)
	}
	for k, as := range x.contract.Asserts {
		if !strings.Contains(line, as.At) {
			continue
		}
		key := fmt.Sprintf("%d@%s:%d@%p", k, pos.Filename, pos.Line, b)
		if x.assertSeen == nil {
			x.assertSeen = map[string]bool{}
		}
		if x.assertSeen[key] {
			continue
		}
		x.assertSeen[key] = true
		label := as.Name
		if label == "" {
			label = fmt.Sprintf("%d", k+1)
		}
		nth := x.count("assertline#" + label + "#" + fmt.Sprint(pos.Line))
		_ = nth
		occ := x.count("assert-at#" + label)
		if as.AtN != 0 && occ != as.AtN {
			continue
		}
		env := x.envAt(fr, b, st)
		saved := x.lookupAtEnd
		x.lookupAtEnd, x.lookupLimited, x.lookupLimit = true, true, instrIndex(ins)
		t := x.evalBool(env, as.E)
		x.lookupAtEnd, x.lookupLimited = saved, false
		txt := strings.Join(strings.Fields(line), "")
		if len(txt) > 32 {
			txt = txt[:32]
		}
		name := fmt.Sprintf("at#%s@[%s]", label, txt)
		name = fmt.Sprintf("%s#%d", name, x.count(name))
		x.oblige("assert-at", name, st.Guard, t, "assertion at a program point: "+as.Text, ins.Pos(), false)
	}
}

// checkBindsAfter handles "bind [G @ after <snippet>] e": the value e has once the last
// instruction of that source line (in this block, before the block's terminator) has run.
func (x *Exec) checkBindsAfter(fr *Frame, b *ssa.BasicBlock, st *State, idx int) {
	if !fr.top || x.contract == nil || len(x.contract.Binds) == 0 {
		return
	}
	ins := b.Instrs[idx]
	ipos := ins.Pos()
	if ex, ok := ins.(*ssa.Extract); ok {
		// the components of "a, b := f()" belong to the line of the call
		if ti, ok := ex.Tuple.(ssa.Instruction); ok {
			ipos = ti.Pos()
		}
	}
	if !ipos.IsValid() {
		return
	}
	if _, isDbg := ins.(*ssa.DebugRef); isDbg {
		return
	}
	line := x.lineText(ipos)
	pos := x.P.Prog.Fset.Position(ipos)
	// is this the last value-producing instruction of the line in this block?
	for j := idx + 1; j < len(b.Instrs); j++ {
		nx := b.Instrs[j]
		if _, isDbg := nx.(*ssa.DebugRef); isDbg {
			continue
		}
		switch nx.(type) {
		case *ssa.If, *ssa.Jump, *ssa.Return:
			continue
		case *ssa.Extract:
			return // the call's results are still being taken apart
		}
		if nx.Pos().IsValid() && x.P.Prog.Fset.Position(nx.Pos()).Line == pos.Line {
			return // more to come on this line
		}
		break
	}
	for k, bd := range x.contract.Binds {
		if !strings.HasPrefix(bd.At, "after ") || !strings.Contains(line, strings.TrimPrefix(bd.At, "after ")) {
			continue
		}
		key := fmt.Sprintf("bindafter%d@%s:%d@%p", k, pos.Filename, pos.Line, b)
		if x.assertSeen == nil {
			x.assertSeen = map[string]bool{}
		}
		if x.assertSeen[key] {
			continue
		}
		x.assertSeen[key] = true
		env := x.envAt(fr, b, st)
		saved := x.lookupAtEnd
		// names as they stand after this instruction and the debug references that follow it
		lim := idx + 1
		for lim < len(b.Instrs) {
			if _, isDbg := b.Instrs[lim].(*ssa.DebugRef); !isDbg {
				break
			}
			lim++
		}
		x.lookupAtEnd, x.lookupLimited, x.lookupLimit = true, true, lim
		v := x.evalVal(env, bd.E)
		x.lookupAtEnd, x.lookupLimited = saved, false
		if v.T.S != "" {
			v.T = x.declareEq("ghost_"+bd.Name, v.T)
		}
		x.ghost[bd.Name] = v
		x.noteReached(bd.Name, st.Guard)
	}
}

// noteReached records the path condition under which a bind point was passed (for the
// spec builtin reached(G)); a point passed more than once is reached if any passage is.
func (x *Exec) noteReached(name string, g Term) {
	if x.ghostReached == nil {
		x.ghostReached = map[string]Term{}
	}
	if old, ok := x.ghostReached[name]; ok {
		g = mkOr(old, g)
	}
	x.ghostReached[name] = g
}
