package main

import (
	"fmt"
	"go/types"
	"os"
	"sort"
	"strings"

	"golang.org/x/tools/go/packages"
	"golang.org/x/tools/go/ssa"
	"golang.org/x/tools/go/ssa/ssautil"
)

// Program is the loaded view of /repo's working tree.
type Program struct {
	Repo  string
	Pkgs  []*packages.Package
	Prog  *ssa.Program
	SSA   map[string]*ssa.Package // by import path
	funcs map[string]*ssa.Function
}

const modulePath = "github.com/influxdata/influxdb/v2"

// LoadProgram type-checks the listed packages of the repository's current
// working tree with the verif tag on and builds SSA for them.
func LoadProgram(repo string, pkgPaths []string) (*Program, error) {
	cfg := &packages.Config{
		Mode: packages.NeedName | packages.NeedFiles | packages.NeedCompiledGoFiles | packages.NeedImports |
			packages.NeedDeps | packages.NeedTypes | packages.NeedSyntax | packages.NeedTypesInfo | packages.NeedTypesSizes | packages.NeedModule,
		Dir:        repo,
		BuildFlags: []string{"-tags=verif"},
		Env: append(os.Environ(), "GOFLAGS=-mod=mod", "GOPROXY=off", "GOTOOLCHAIN=auto", "CGO_ENABLED=1",
			"GOWORK=off"),
	}
	var pats []string
	for _, p := range pkgPaths {
		if p == "." || p == "" {
			pats = append(pats, modulePath)
		} else if strings.HasPrefix(p, modulePath) {
			pats = append(pats, p)
		} else {
			pats = append(pats, modulePath+"/"+p)
		}
	}
	pkgs, err := packages.Load(cfg, pats...)
	if err != nil {
		return nil, err
	}
	for _, p := range pkgs {
		for _, e := range p.Errors {
			// cgo failures of libflux do not stop type-checking of importers; a type
			// error in a package under contract does.
			if strings.Contains(e.Msg, "could not import C") || strings.Contains(e.Msg, "pkg-config") {
				continue
			}
			return nil, fmt.Errorf("package %s: %v", p.PkgPath, e)
		}
	}
	prog, spkgs := ssautil.AllPackages(pkgs, ssa.InstantiateGenerics|ssa.GlobalDebug)
	P := &Program{Repo: repo, Pkgs: pkgs, Prog: prog, SSA: map[string]*ssa.Package{}, funcs: map[string]*ssa.Function{}}
	for i, sp := range spkgs {
		if sp == nil {
			continue
		}
		sp.Build()
		P.SSA[pkgs[i].PkgPath] = sp
	}
	// Dependencies inside the module also get bodies (for inlining).
	for _, sp := range prog.AllPackages() {
		if sp.Pkg != nil && strings.HasPrefix(sp.Pkg.Path(), modulePath) {
			sp.Build()
			if _, ok := P.SSA[sp.Pkg.Path()]; !ok {
				P.SSA[sp.Pkg.Path()] = sp
			}
		}
	}
	return P, nil
}

// FuncKey is the stable name contracts are keyed by:
// "<pkgpath>.Func", "<pkgpath>.(*T).Method", "<pkgpath>.(T).Method".
func FuncKey(f *ssa.Function) string {
	if f == nil {
		return "<nil>"
	}
	if f.Parent() != nil {
		return FuncKey(f.Parent()) + "$" + strings.TrimPrefix(f.Name(), f.Parent().Name()+"$")
	}
	if o := f.Origin(); o != nil && o != f {
		// generic instance: keyed by the generic's name plus the type arguments
		var ta []string
		for _, t := range f.TypeArgs() {
			ta = append(ta, types.TypeString(t, func(p *types.Package) string { return p.Name() }))
		}
		return FuncKey(o) + "[" + strings.Join(ta, ",") + "]"
	}
	pkg := ""
	if f.Pkg != nil {
		pkg = f.Pkg.Pkg.Path()
	} else if f.Object() != nil && f.Object().Pkg() != nil {
		pkg = f.Object().Pkg().Path()
	}
	if recv := f.Signature.Recv(); recv != nil {
		t := recv.Type()
		ptr := false
		if p, ok := t.(*types.Pointer); ok {
			t = p.Elem()
			ptr = true
		}
		name := types.TypeString(t, func(*types.Package) string { return "" })
		if n, ok := t.(*types.Named); ok {
			name = n.Obj().Name()
			if n.Obj().Pkg() != nil {
				pkg = n.Obj().Pkg().Path()
			}
		}
		if ptr {
			return pkg + ".(*" + name + ")." + f.Name()
		}
		return pkg + ".(" + name + ")." + f.Name()
	}
	return pkg + "." + f.Name()
}

// ShortKey strips the module path.
func ShortKey(k string) string {
	k = strings.TrimPrefix(k, modulePath+"/")
	k = strings.TrimPrefix(k, modulePath+".")
	return k
}

// AllFunctions indexes every function with a body in the module by FuncKey.
func (P *Program) AllFunctions() map[string]*ssa.Function {
	if len(P.funcs) > 0 {
		return P.funcs
	}
	for f := range ssautil.AllFunctions(P.Prog) {
		if f.Blocks == nil {
			continue
		}
		k := FuncKey(f)
		if !strings.HasPrefix(k, modulePath) {
			continue
		}
		P.funcs[k] = f
	}
	return P.funcs
}

// FindFunc resolves a contract key (short or full) to an SSA function. For a
// generic function the key without type arguments returns all instances.
func (P *Program) FindFunc(key string) []*ssa.Function {
	all := P.AllFunctions()
	full := key
	if !strings.HasPrefix(key, modulePath) {
		if strings.HasPrefix(key, "(") || !strings.Contains(key, "/") && strings.Count(key, ".") == 0 {
			full = modulePath + "." + key
		} else {
			full = modulePath + "/" + key
		}
	}
	var out []*ssa.Function
	if f, ok := all[full]; ok {
		out = append(out, f)
	}
	if f, ok := all[modulePath+"."+key]; ok && len(out) == 0 {
		out = append(out, f)
	}
	if len(out) == 1 && out[0].TypeParams().Len() > 0 && len(out[0].TypeArgs()) == 0 {
		out = nil // a generic function is verified through its instances, never uninstantiated
	}
	if len(out) == 0 {
		var keys []string
		for k := range all {
			if strings.HasPrefix(k, full+"[") {
				keys = append(keys, k)
			}
		}
		sort.Strings(keys)
		for _, k := range keys {
			out = append(out, all[k])
		}
	}
	return out
}
