package main

import (
	"fmt"
	"go/types"
	"os"
	"os/exec"
	"path/filepath"
	"sort"
	"strings"

	"golang.org/x/tools/go/packages"
	"golang.org/x/tools/go/ssa"
	"golang.org/x/tools/go/ssa/ssautil"
)

// Program is the loaded view of /repo's working tree.
type Program struct {
	Repo  string
	Pkgs  []*packages.Package
	Prog  *ssa.Program
	SSA   map[string]*ssa.Package // by import path
	funcs map[string]*ssa.Function
}

const modulePath = "github.com/influxdata/influxdb/v2"

// LoadProgram type-checks the listed packages of the repository's current
// working tree with the verif tag on and builds SSA for them.
func LoadProgram(repo string, pkgPaths []string) (*Program, error) {
	cfg := &packages.Config{
		Mode: packages.NeedName | packages.NeedFiles | packages.NeedCompiledGoFiles | packages.NeedImports |
			packages.NeedDeps | packages.NeedTypes | packages.NeedSyntax | packages.NeedTypesInfo | packages.NeedTypesSizes | packages.NeedModule,
		Dir:        repo,
		BuildFlags: []string{"-tags=verif"},
		Env: append(os.Environ(), "GOFLAGS=-mod=mod", "GOPROXY=off", "GOTOOLCHAIN=auto", "CGO_ENABLED=1",
			"GOWORK=off"),
	}
	// The flux dependency's libflux package is cgo and asks pkg-config for "flux". When
	// that fails, go/packages marks libflux AND every importer (tsdb, tsm1, influxql, ...)
	// IllTyped and ssautil silently drops them. Nothing may depend on a warm build cache:
	// hand cgo a Cflags-only flux.pc (type-checking needs the header, never the library).
	if pc, cleanup := fluxPkgConfig(repo, cfg.Env); pc != "" {
		defer cleanup()
		v := pc
		if old := os.Getenv("PKG_CONFIG_PATH"); old != "" {
			v += string(os.PathListSeparator) + old
		}
		cfg.Env = append(cfg.Env, "PKG_CONFIG_PATH="+v)
	}
	var pats []string
	for _, p := range pkgPaths {
		if p == "." || p == "" {
			pats = append(pats, modulePath)
		} else if strings.HasPrefix(p, modulePath) {
			pats = append(pats, p)
		} else {
			pats = append(pats, modulePath+"/"+p)
		}
	}
	pkgs, err := packages.Load(cfg, pats...)
	if err != nil {
		return nil, err
	}
	for _, p := range pkgs {
		for _, e := range p.Errors {
			// cgo failures of libflux do not stop type-checking of importers; a type
			// error in a package under contract does.
			if strings.Contains(e.Msg, "could not import C") || strings.Contains(e.Msg, "pkg-config") {
				continue
			}
			return nil, fmt.Errorf("package %s: %v", p.PkgPath, e)
		}
	}
	// If cgo of libflux still failed (no pkg-config, no header), its importers carry no
	// error of their own: IllTyped is inherited. Clear the inherited flag so that SSA is
	// built for them; a package with errors of its own keeps it and stays out.
	packages.Visit(pkgs, nil, func(p *packages.Package) {
		if p.IllTyped && len(p.Errors) == 0 && p.Types != nil && p.TypesInfo != nil {
			p.IllTyped = false
		}
	})
	for _, p := range pkgs {
		if p.IllTyped {
			return nil, fmt.Errorf("package %s: did not type-check (cgo dependency)", p.PkgPath)
		}
	}
	prog, spkgs := ssautil.AllPackages(pkgs, ssa.InstantiateGenerics|ssa.GlobalDebug)
	P := &Program{Repo: repo, Pkgs: pkgs, Prog: prog, SSA: map[string]*ssa.Package{}, funcs: map[string]*ssa.Function{}}
	for i, sp := range spkgs {
		if sp == nil {
			continue
		}
		sp.Build()
		P.SSA[pkgs[i].PkgPath] = sp
	}
	// Dependencies inside the module also get bodies (for inlining).
	for _, sp := range prog.AllPackages() {
		if sp.Pkg != nil && strings.HasPrefix(sp.Pkg.Path(), modulePath) {
			sp.Build()
			if _, ok := P.SSA[sp.Pkg.Path()]; !ok {
				P.SSA[sp.Pkg.Path()] = sp
			}
		}
	}
	return P, nil
}

// FuncKey is the stable name contracts are keyed by:
// "<pkgpath>.Func", "<pkgpath>.(*T).Method", "<pkgpath>.(T).Method".
func FuncKey(f *ssa.Function) string {
	if f == nil {
		return "<nil>"
	}
	if f.Parent() != nil {
		return FuncKey(f.Parent()) + "$" + strings.TrimPrefix(f.Name(), f.Parent().Name()+"$")
	}
	if o := f.Origin(); o != nil && o != f {
		// generic instance: keyed by the generic's name plus the type arguments
		var ta []string
		for _, t := range f.TypeArgs() {
			ta = append(ta, types.TypeString(t, func(p *types.Package) string { return p.Name() }))
		}
		return FuncKey(o) + "[" + strings.Join(ta, ",") + "]"
	}
	pkg := ""
	if f.Pkg != nil {
		pkg = f.Pkg.Pkg.Path()
	} else if f.Object() != nil && f.Object().Pkg() != nil {
		pkg = f.Object().Pkg().Path()
	}
	if recv := f.Signature.Recv(); recv != nil {
		t := recv.Type()
		ptr := false
		if p, ok := t.(*types.Pointer); ok {
			t = p.Elem()
			ptr = true
		}
		name := types.TypeString(t, func(*types.Package) string { return "" })
		if n, ok := t.(*types.Named); ok {
			name = n.Obj().Name()
			if n.Obj().Pkg() != nil {
				pkg = n.Obj().Pkg().Path()
			}
		}
		if ptr {
			return pkg + ".(*" + name + ")." + f.Name()
		}
		return pkg + ".(" + name + ")." + f.Name()
	}
	return pkg + "." + f.Name()
}

// ShortKey strips the module path.
func ShortKey(k string) string {
	k = strings.TrimPrefix(k, modulePath+"/")
	k = strings.TrimPrefix(k, modulePath+".")
	return k
}

// AllFunctions indexes every function with a body in the module by FuncKey.
func (P *Program) AllFunctions() map[string]*ssa.Function {
	if len(P.funcs) > 0 {
		return P.funcs
	}
	for f := range ssautil.AllFunctions(P.Prog) {
		if f.Blocks == nil {
			continue
		}
		k := FuncKey(f)
		if !strings.HasPrefix(k, modulePath) {
			continue
		}
		P.funcs[k] = f
	}
	return P.funcs
}

// FindFunc resolves a contract key (short or full) to an SSA function. For a
// generic function the key without type arguments returns all instances.
func (P *Program) FindFunc(key string) []*ssa.Function {
	all := P.AllFunctions()
	full := key
	if !strings.HasPrefix(key, modulePath) {
		if strings.HasPrefix(key, "(") || !strings.Contains(key, "/") && strings.Count(key, ".") == 0 {
			full = modulePath + "." + key
		} else {
			full = modulePath + "/" + key
		}
	}
	var out []*ssa.Function
	if f, ok := all[full]; ok {
		out = append(out, f)
	}
	if f, ok := all[modulePath+"."+key]; ok && len(out) == 0 {
		out = append(out, f)
	}
	if len(out) == 1 && out[0].TypeParams().Len() > 0 && len(out[0].TypeArgs()) == 0 {
		out = nil // a generic function is verified through its instances, never uninstantiated
	}
	if len(out) == 0 {
		var keys []string
		for k := range all {
			if strings.HasPrefix(k, full+"[") {
				keys = append(keys, k)
			}
		}
		sort.Strings(keys)
		for _, k := range keys {
			out = append(out, all[k])
		}
	}
	return out
}

// fluxPkgConfig writes a throw-away flux.pc that carries only the include path of the
// flux module's libflux header and returns its directory ("" when the module directory
// cannot be resolved; the loader then falls back on clearing inherited IllTyped flags).
func fluxPkgConfig(repo string, env []string) (string, func()) {
	cmd := exec.Command("go", "list", "-m", "-f", "{{.Dir}}", "github.com/influxdata/flux")
	cmd.Dir = repo
	cmd.Env = env
	out, err := cmd.Output()
	dir := strings.TrimSpace(string(out))
	if err != nil || dir == "" {
		return "", nil
	}
	tmp, err := os.MkdirTemp("", "govc-pc-")
	if err != nil {
		return "", nil
	}
	pc := "Name: flux\nDescription: header-only stub for type-checking\nVersion: 0.0.0\nCflags: -I" + filepath.Join(dir, "libflux", "include") + "\nLibs:\n"
	if err := os.WriteFile(filepath.Join(tmp, "flux.pc"), []byte(pc), 0o644); err != nil {
		os.RemoveAll(tmp)
		return "", nil
	}
	return tmp, func() { os.RemoveAll(tmp) }
}
