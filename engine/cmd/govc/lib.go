package main

import (
	"fmt"
	"go/token"
	"go/types"
	"math/big"
	"strings"

	"golang.org/x/tools/go/ssa"
)

type libHandler func(x *Exec, fr *Frame, st *State, site ssa.Instruction, c *ssa.CallCommon, args []Val, rt types.Type) Val
type ifaceHandler func(x *Exec, fr *Frame, st *State, site ssa.Instruction, c *ssa.CallCommon, recv Val, args []Val, rt types.Type) Val

// pureOpaque: the call does not touch any modelled heap; its result is
// unconstrained (beyond its type). Recorded in the trusted base.
func pureOpaque(what string) libHandler {
	return func(x *Exec, fr *Frame, st *State, site ssa.Instruction, c *ssa.CallCommon, args []Val, rt types.Type) Val {
		x.assumed[what+" is pure w.r.t. the modelled heaps; result opaque"] = true
		return x.freshResult(fr, st, "lib", rt)
	}
}

// pureNonNil: like pureOpaque, result (a pointer/interface) is non-nil and fresh.
func pureNonNilErr(what string) libHandler {
	return func(x *Exec, fr *Frame, st *State, site ssa.Instruction, c *ssa.CallCommon, args []Val, rt types.Type) Val {
		x.assumed[what+" returns a non-nil error and is pure w.r.t. the modelled heaps"] = true
		r := x.freshResult(fr, st, "err", rt)
		if r.T.Sort == "Iface" {
			x.assume(mkNot(mkEq(r.T, Term{"(mk_iface 0 0)", "Iface"})))
			x.assume(Term{fmt.Sprintf("(> (i_typ %s) 0)", r.T.S), "Bool"})
		}
		return r
	}
}

func noop(x *Exec, fr *Frame, st *State, site ssa.Instruction, c *ssa.CallCommon, args []Val, rt types.Type) Val {
	x.assumed["sync primitives are no-ops: functions are verified under sequential semantics"] = true
	return Val{Typ: rt}
}

var libCalls map[string]libHandler
var ifaceCalls = map[string]ifaceHandler{}

func init() {
	libCalls = map[string]libHandler{
		"fmt.Printf":   pureOpaque("fmt.Printf"),
		"fmt.Println":  pureOpaque("fmt.Println"),
		"fmt.Sprintf":  pureOpaque("fmt.Sprintf"),
		"fmt.Sprint":   pureOpaque("fmt.Sprint"),
		"fmt.Fprintf":  pureOpaque("fmt.Fprintf"),
		"fmt.Errorf":   pureNonNilErr("fmt.Errorf"),
		"errors.New":   pureNonNilErr("errors.New"),
		"errors.Is":    pureOpaque("errors.Is"),
		"errors.As":    pureOpaque("errors.As"),
		"errors.Join":  pureOpaque("errors.Join"),
		"strconv.Itoa": pureOpaque("strconv.Itoa"),

		"sync.(*Mutex).Lock":      lockOp(2, "Lock"),
		"sync.(*Mutex).Unlock":    lockOp(0, "Unlock"),
		"sync.(*RWMutex).Lock":    lockOp(2, "Lock"),
		"sync.(*RWMutex).Unlock":  lockOp(0, "Unlock"),
		"sync.(*RWMutex).RLock":   lockOp(1, "RLock"),
		"sync.(*RWMutex).RUnlock": lockOp(0, "RUnlock"),
		"sync.(*Mutex).TryLock":   pureOpaque("sync.(*Mutex).TryLock"),
		"sync.(*WaitGroup).Add":   noop,
		"sync.(*WaitGroup).Done":  noop,
		"sync.(*WaitGroup).Wait":  noop,

		"sort.Search": sortSearch,
		"sort.Sort":   sortSort,
		"sort.Stable": sortSort,

		"math/bits.LeadingZeros64":  bitsLeadingZeros(64),
		"math/bits.LeadingZeros32":  bitsLeadingZeros(32),
		"math/bits.TrailingZeros64": bitsTrailingZeros(64),
		"math/bits.Len64":           bitsLen(64),
	}
	registerTime()
	registerAtomic()
}

func libPrefix(key string) libHandler {
	switch {
	case strings.HasPrefix(key, "go.uber.org/zap."), strings.HasPrefix(key, "go.uber.org/zap/zapcore."):
		return pureOpaque("zap logging")
	case strings.HasPrefix(key, "github.com/prometheus/client_golang/"):
		return pureOpaque("prometheus metrics")
	case strings.HasPrefix(key, "log."):
		return pureOpaque("log package")
	}
	return nil
}

// sort.Search(n, f): 0<=r<=n, (r<n => f(r)), and for a predicate that is
// monotone on [0,n) (false..false true..true) every k<r has !f(k).
// The closure body is executed symbolically for the indices the contract
// mentions.
func sortSearch(x *Exec, fr *Frame, st *State, site ssa.Instruction, c *ssa.CallCommon, args []Val, rt types.Type) Val {
	x.assumed["sort.Search contract: 0<=r<=n, r<n ==> f(r), and -- only if f is monotone on [0,n) -- !f(k) for all k<r"] = true
	n := args[0].T
	f := args[1]
	if f.Fn == nil || !inlinable(f.Fn) {
		x.havocAll(st)
		return x.freshResult(fr, st, "search", rt)
	}
	r := x.declare("search", x.S.Idx())
	z := x.S.IdxLit(0)
	x.assumeUnder(st.Guard, mkAnd(x.iLe(z, r), x.iLe(r, n)))
	pred := func(i Term) Term {
		sub := st.clone()
		sub.Guard = tTrue
		x.inSpec++
		saved := x.nosafety
		x.nosafety = true
		rs := x.inlineCallBind(sub, f.Fn, []Val{{T: i, Typ: types.Typ[types.Int]}}, f.Bind, true, fr)
		x.nosafety = saved
		x.inSpec--
		return rs[0].T
	}
	// f(r) when r<n
	x.assumeUnder(st.Guard, mkImp(x.iLt(r, n), pred(r)))
	// monotonicity obligation and its consequence, as quantified facts
	x.inQuant++
	k1, k2 := Term{"k!s1", x.S.Idx()}, Term{"k!s2", x.S.Idx()}
	mono := Term{fmt.Sprintf("(forall ((k!s1 %s) (k!s2 %s)) (=> (and %s %s %s %s) %s))", x.S.Idx(), x.S.Idx(),
		x.iLe(z, k1).S, x.iLe(k1, k2).S, x.iLt(k2, n).S, pred(k1).S, pred(k2).S), "Bool"}
	below := Term{fmt.Sprintf("(forall ((k!s1 %s)) (=> (and %s %s) (not %s)))", x.S.Idx(), x.iLe(z, k1).S, x.iLt(k1, r).S, pred(k1).S), "Bool"}
	x.inQuant--
	// sort.Search has no precondition (it never panics on a non-monotone predicate); only
	// its "first true" guarantee depends on monotonicity
	x.assumeUnder(st.Guard, mkImp(mono, below))
	return Val{T: r, Typ: rt}
}

func bitsLeadingZeros(w int) libHandler {
	return func(x *Exec, fr *Frame, st *State, site ssa.Instruction, c *ssa.CallCommon, args []Val, rt types.Type) Val {
		if x.mode != ModeBV {
			// integer mode has no bit-level model: the count is an arbitrary value in [0,w]
			x.assumed["bits.LeadingZeros in int mode abstracted to an arbitrary value in its range"] = true
			r := x.freshResult(fr, st, "lz", rt)
			x.assumeUnder(st.Guard, mkAnd(x.iLe(x.S.IdxLit(0), r.T), x.iLe(r.T, x.S.IdxLit(int64(w)))))
			return r
		}
		a := args[0].T
		// nested ite from the top bit down
		res := fmt.Sprintf("(_ bv%d 64)", w)
		for i := 0; i < w; i++ {
			res = fmt.Sprintf("(ite (= ((_ extract %d %d) %s) #b1) (_ bv%d 64) %s)", i, i, a.S, w-1-i, res)
		}
		return Val{T: Term{res, bvSort(64)}, Typ: rt}
	}
}

func bitsTrailingZeros(w int) libHandler {
	return func(x *Exec, fr *Frame, st *State, site ssa.Instruction, c *ssa.CallCommon, args []Val, rt types.Type) Val {
		if x.mode != ModeBV {
			panic(toolErr("bits.TrailingZeros needs mode bv"))
		}
		a := args[0].T
		res := fmt.Sprintf("(_ bv%d 64)", w)
		for i := w - 1; i >= 0; i-- {
			res = fmt.Sprintf("(ite (= ((_ extract %d %d) %s) #b1) (_ bv%d 64) %s)", i, i, a.S, i, res)
		}
		return Val{T: Term{res, bvSort(64)}, Typ: rt}
	}
}

func bitsLen(w int) libHandler {
	return func(x *Exec, fr *Frame, st *State, site ssa.Instruction, c *ssa.CallCommon, args []Val, rt types.Type) Val {
		if x.mode != ModeBV {
			panic(toolErr("bits.Len needs mode bv"))
		}
		a := args[0].T
		res := "(_ bv0 64)"
		for i := 0; i < w; i++ {
			res = fmt.Sprintf("(ite (= ((_ extract %d %d) %s) #b1) (_ bv%d 64) %s)", i, i, a.S, i+1, res)
		}
		return Val{T: Term{res, bvSort(64)}, Typ: rt}
	}
}

// ---------- sync/atomic: sequential read/write of the addressed cell ----------

func registerAtomic() {
	cas := func(x *Exec, fr *Frame, st *State, site ssa.Instruction, c *ssa.CallCommon, args []Val, rt types.Type) Val {
		if v, ok := rgCAS(x, fr, st, site, c, args, rt); ok {
			return v
		}
		x.assumed["sync/atomic operations are sequential reads/writes (no interleaving modelled)"] = true
		t := pointee(c.Args[0].Type())
		cur := x.loadPtr(st, args[0], t)
		eq := mkEq(cur, args[1].T)
		x.storePtr(st, args[0], t, mkIte(eq, args[2].T, cur))
		return Val{T: eq, Typ: rt}
	}
	add := func(x *Exec, fr *Frame, st *State, site ssa.Instruction, c *ssa.CallCommon, args []Val, rt types.Type) Val {
		if v, ok := rgAdd(x, fr, st, site, c, args, rt); ok {
			return v
		}
		x.assumed["sync/atomic operations are sequential reads/writes (no interleaving modelled)"] = true
		t := pointee(c.Args[0].Type())
		cur := Val{T: x.loadPtr(st, args[0], t), Typ: t}
		sum := x.binop(nil, st, token.ADD, cur, args[1], t, t, t, nil, token.NoPos)
		if x.mode == ModeInt {
			sum = wrapInt(sum, t)
		}
		x.storePtr(st, args[0], t, sum)
		return Val{T: sum, Typ: rt}
	}
	for _, ty := range []string{"Uint64", "Int64", "Uint32", "Int32"} {
		libCalls["sync/atomic.CompareAndSwap"+ty] = cas
		libCalls["sync/atomic.Add"+ty] = add
	}
	load := func(x *Exec, fr *Frame, st *State, site ssa.Instruction, c *ssa.CallCommon, args []Val, rt types.Type) Val {
		if v, ok := rgLoad(x, fr, st, site, c, args, rt); ok {
			return v
		}
		x.assumed["sync/atomic operations are sequential reads/writes (no interleaving modelled)"] = true
		t := pointee(c.Args[0].Type())
		return Val{T: x.loadPtr(st, args[0], t), Typ: rt}
	}
	store := func(x *Exec, fr *Frame, st *State, site ssa.Instruction, c *ssa.CallCommon, args []Val, rt types.Type) Val {
		x.assumed["sync/atomic operations are sequential reads/writes (no interleaving modelled)"] = true
		t := pointee(c.Args[0].Type())
		x.storePtr(st, args[0], t, args[1].T)
		return Val{Typ: rt}
	}
	for _, ty := range []string{"Uint64", "Int64", "Uint32", "Int32"} {
		libCalls["sync/atomic.Load"+ty] = load
		libCalls["sync/atomic.Store"+ty] = store
	}
	// atomic.Bool / atomic.Int64 ... methods operate on the struct's value field
	for _, ty := range []string{"Bool", "Int64", "Uint64", "Int32", "Uint32"} {
		ty := ty
		libCalls["sync/atomic.(*"+ty+").Load"] = func(x *Exec, fr *Frame, st *State, site ssa.Instruction, c *ssa.CallCommon, args []Val, rt types.Type) Val {
			x.assumed["sync/atomic operations are sequential reads/writes (no interleaving modelled)"] = true
			if a, vt := x.atomicV(args[0], c.Args[0].Type()); a != nil {
				v := x.loadAddr(st, a)
				if ty == "Bool" {
					return Val{T: mkNot(mkEq(v, x.intConst(big.NewInt(0), vt))), Typ: rt}
				}
				return Val{T: v, Typ: rt}
			}
			a := x.atomicCell(args[0], c.Args[0].Type(), rt)
			return Val{T: x.loadAddr(st, a), Typ: rt}
		}
		libCalls["sync/atomic.(*"+ty+").Store"] = func(x *Exec, fr *Frame, st *State, site ssa.Instruction, c *ssa.CallCommon, args []Val, rt types.Type) Val {
			x.assumed["sync/atomic operations are sequential reads/writes (no interleaving modelled)"] = true
			if a, vt := x.atomicV(args[0], c.Args[0].Type()); a != nil {
				v := args[1].T
				if ty == "Bool" {
					v = mkIte(v, x.intConst(big.NewInt(1), vt), x.intConst(big.NewInt(0), vt))
				}
				x.storeAddr(st, a, v)
				return Val{Typ: rt}
			}
			a := x.atomicCell(args[0], c.Args[0].Type(), c.Args[1].Type())
			x.storeAddr(st, a, args[1].T)
			return Val{Typ: rt}
		}
	}
}

// atomicV addresses the value field "v" of a sync/atomic typed struct
// (atomic.Bool keeps a uint32 that is non-zero for true).
func (x *Exec) atomicV(p Val, ptrT types.Type) (*Addr, types.Type) {
	st := pointee(ptrT)
	if st == nil {
		return nil, nil
	}
	su, ok := asStruct(st)
	if !ok {
		return nil, nil
	}
	idx, _ := findField(su, "v")
	if idx < 0 {
		return nil, nil
	}
	return x.fieldAddr(p, st, idx), su.Field(idx).Type()
}

// atomicCell is a ghost cell holding the logical value of an atomic.X struct.
func (x *Exec) atomicCell(p Val, pt types.Type, valT types.Type) *Addr {
	if p.Addr != nil {
		// field of an enclosing struct: model the atomic's value as a ghost cell keyed by
		// the enclosing object and field path
		a := *p.Addr
		key := fmt.Sprintf("atomic$%s$%d", a.SSort, a.Field)
		for _, pr := range a.Path {
			key += fmt.Sprintf("_%d", pr.Field)
		}
		return &Addr{Kind: akGhost, Global: key, Ref: a.Ref, RootT: valT, T: valT}
	}
	return &Addr{Kind: akGhost, Global: "atomic$" + sortTag(x.S.SortOf(valT)), Ref: p.T, RootT: valT, T: valT}
}

// ---------- time model: time.Time is an Int instant (ns since year 1) ----------

const unixEpochNs = "62135596800000000000"

func registerTime() {
	libCalls["time.Now"] = func(x *Exec, fr *Frame, st *State, site ssa.Instruction, c *ssa.CallCommon, args []Val, rt types.Type) Val {
		x.assumed["time.Now() returns an arbitrary instant per call"] = true
		return x.freshResult(fr, st, "now", rt)
	}
	m := func(name string, h func(x *Exec, st *State, a []Val, rt types.Type) Term) {
		libCalls[name] = func(x *Exec, fr *Frame, st *State, site ssa.Instruction, c *ssa.CallCommon, args []Val, rt types.Type) Val {
			x.assumed["time model: time.Time is an integer instant (ns since year 1, wall clock only); Before/After/Equal/Add/Sub/Truncate/Unix/UnixNano as in DESIGN 2.4.6"] = true
			return Val{T: h(x, st, args, rt), Typ: rt}
		}
	}
	m("time.(Time).Before", func(x *Exec, st *State, a []Val, rt types.Type) Term { return Term{app("<", a[0].T, a[1].T), "Bool"} })
	m("time.(Time).After", func(x *Exec, st *State, a []Val, rt types.Type) Term { return Term{app(">", a[0].T, a[1].T), "Bool"} })
	m("time.(Time).Equal", func(x *Exec, st *State, a []Val, rt types.Type) Term { return mkEq(a[0].T, a[1].T) })
	m("time.(Time).IsZero", func(x *Exec, st *State, a []Val, rt types.Type) Term { return mkEq(a[0].T, intLit(0)) })
	m("time.(Time).UTC", func(x *Exec, st *State, a []Val, rt types.Type) Term { return a[0].T })
	m("time.(Time).Compare", func(x *Exec, st *State, a []Val, rt types.Type) Term {
		return x.intTermOf(fmt.Sprintf("(ite (< %s %s) (- 1) (ite (> %s %s) 1 0))", a[0].T.S, a[1].T.S, a[0].T.S, a[1].T.S))
	})
	m("time.(Time).Add", func(x *Exec, st *State, a []Val, rt types.Type) Term {
		return Term{app("+", a[0].T, x.mathInt(a[1].T)), "Int"}
	})
	m("time.(Time).Sub", func(x *Exec, st *State, a []Val, rt types.Type) Term {
		// saturates at the Duration range
		d := fmt.Sprintf("(- %s %s)", a[0].T.S, a[1].T.S)
		return x.intTermOf(fmt.Sprintf("(ite (> %s 9223372036854775807) 9223372036854775807 (ite (< %s (- 9223372036854775808)) (- 9223372036854775808) %s))", d, d, d))
	})
	m("time.(Time).UnixNano", func(x *Exec, st *State, a []Val, rt types.Type) Term {
		// inst - E if representable, unspecified (an uninterpreted function of the instant) otherwise
		x.declUF("unixnano_unspec", "(Int) Int")
		d := fmt.Sprintf("(- %s %s)", a[0].T.S, unixEpochNs)
		if x.inQuant > 0 {
			// the argument may mention bound variables: state the range of the unspecified
			// value once, for every instant
			if !x.sentAssumed["unixnano_unspec range"] {
				x.sentAssumed["unixnano_unspec range"] = true
				x.pendingAxioms = append(x.pendingAxioms, "(assert (forall ((t!un Int)) (! (and (<= (- 9223372036854775808) (unixnano_unspec t!un)) (<= (unixnano_unspec t!un) 9223372036854775807)) :pattern ((unixnano_unspec t!un)))))")
			}
		} else {
			x.assume(Term{fmt.Sprintf("(and (<= (- 9223372036854775808) (unixnano_unspec %s)) (<= (unixnano_unspec %s) 9223372036854775807))", a[0].T.S, a[0].T.S), "Bool"})
		}
		return x.intTermOf(fmt.Sprintf("(ite (and (<= (- 9223372036854775808) %s) (<= %s 9223372036854775807)) %s (unixnano_unspec %s))", d, d, d, a[0].T.S))
	})
	m("time.(Time).Truncate", func(x *Exec, st *State, a []Val, rt types.Type) Term {
		d := x.mathInt(a[1].T)
		return Term{fmt.Sprintf("(ite (<= %s 0) %s (- %s (mod %s %s)))", d.S, a[0].T.S, a[0].T.S, a[0].T.S, d.S), "Int"}
	})
	m("time.Unix", func(x *Exec, st *State, a []Val, rt types.Type) Term {
		return Term{fmt.Sprintf("(+ %s (* %s 1000000000) %s)", unixEpochNs, x.mathInt(a[0].T).S, x.mathInt(a[1].T).S), "Int"}
	})
	m("time.Since", func(x *Exec, st *State, a []Val, rt types.Type) Term {
		return x.declare("since", x.S.SortOf(rt))
	})
}

// mathInt reads a machine integer as a mathematical one.
func (x *Exec) mathInt(t Term) Term {
	if x.mode == ModeBV {
		panic(toolErr("time model needs mode int"))
	}
	return t
}

func (x *Exec) intTermOf(s string) Term {
	if x.mode == ModeBV {
		panic(toolErr("time model needs mode int"))
	}
	return Term{s, "Int"}
}

func (x *Exec) timeMethodSpec(env *SpecEnv, recv Val, e EMethod) Val {
	var args []Val
	args = append(args, recv)
	for _, a := range e.Args {
		args = append(args, x.coerce(x.evalVal(env, a), types.Typ[types.Int64]))
	}
	h, ok := libCalls["time.(Time)."+e.Name]
	if !ok {
		panic(specErr("time.Time.%s is not modelled", e.Name))
	}
	var rt types.Type = types.Typ[types.Bool]
	switch e.Name {
	case "Add", "Truncate", "UTC":
		rt = recv.Typ
	case "UnixNano":
		rt = types.Typ[types.Int64]
	case "Sub":
		rt = types.Typ[types.Int64]
	}
	return h(x, nil, env.cur, nil, nil, args, rt)
}

func (x *Exec) ifaceContractCall(fr *Frame, st *State, site ssa.Instruction, c *ssa.CallCommon, is *IfaceSpec, ms *IfaceMethodSpec, recv Val, args []Val, rt types.Type) Val {
	x.assumed["interface contract (environment assumption): "+is.Name+"."+ms.Name] = true
	if ms.Pure && len(ms.Ensures) == 0 && len(ms.Requires) == 0 {
		// a pure observer: an uninterpreted function of the receiver and arguments
		return x.ifaceUF(is, ms, recv, args, c.Signature(), st)
	}
	env := &SpecEnv{x: x, vars: map[string]Val{}, cur: st, old: st}
	if fr != nil && fr.fn.Pkg != nil {
		env.pkg = fr.fn.Pkg.Pkg
	}
	sig := c.Signature()
	env.vars["self"] = recv
	for i := 0; i < sig.Params().Len() && i < len(args); i++ {
		a := args[i]
		a.Typ = sig.Params().At(i).Type()
		n := sig.Params().At(i).Name()
		if n != "" && n != "_" {
			env.vars[n] = a
		}
		env.vars[fmt.Sprintf("arg%d", i)] = a
	}
	x.bindGhost(env, is, recv, st)
	for k, rq := range ms.Requires {
		t := x.evalBool(env, rq.E)
		name := fmt.Sprintf("pre@%s.%s#%d@%d", is.Name, ms.Name, k+1, x.count("pre@"+is.Name+"."+ms.Name))
		x.oblige("pre", name, st.Guard, t, "precondition of "+is.Name+"."+ms.Name+": "+rq.Text, site.Pos(), false)
	}
	pre := st.clone()
	if !ms.Pure {
		// ghost fields listed in modifies change; everything else in the program's
		// heaps is untouched unless the contract says "modifies *"
		for _, g := range ms.Modifies {
			if g == "*" {
				x.havocAll(st)
				continue
			}
			if strings.HasPrefix(g, "@") {
				// the elements of a slice argument (e.g. the buffer handed to Read)
				av, ok := env.vars[g[1:]]
				if !ok {
					panic(specErr("modifies %s: no such parameter of %s.%s", g, is.Name, ms.Name))
				}
				sl, isSlice := av.Typ.Underlying().(*types.Slice)
				if !isSlice {
					panic(specErr("modifies %s: not a slice parameter", g))
				}
				hn, hs := x.S.ElemHeapT(sl.Elem())
				h := x.heapGet(st, hn, hs)
				x.heapSet(st, hn, mkStore(h, Term{app("s_ref", av.T), "Int"}, x.declare("buf", arraySort(x.S.Idx(), x.S.SortOf(sl.Elem())))))
				continue
			}
			a := x.ghostAddr(is, g, recv)
			nv := x.declare("gh", x.S.SortOf(a.RootT))
			x.assume(x.typeInv(nv, a.RootT, 0))
			x.storeAddr(st, a, nv)
		}
	}
	var res Val
	if ms.Pure {
		// a pure method with postconditions: still a deterministic function of the
		// receiver and arguments (so that code and specification agree on its value),
		// additionally constrained by the ensures clauses
		res = x.ifaceUF(is, ms, recv, args, c.Signature(), st)
	} else {
		res = x.freshResult(fr, st, ms.Name+"!r", rt)
	}
	penv := &SpecEnv{x: x, vars: map[string]Val{}, cur: st, old: pre, pkg: env.pkg}
	for k, v := range env.vars {
		penv.vars[k] = v
	}
	x.bindGhost(penv, is, recv, st)
	// results by name and position
	rs := sig.Results()
	var vals []Val
	if res.Tuple != nil {
		vals = res.Tuple
	} else if rs.Len() == 1 {
		vals = []Val{res}
	}
	for i := 0; i < rs.Len() && i < len(vals); i++ {
		v := vals[i]
		v.Typ = rs.At(i).Type()
		if n := rs.At(i).Name(); n != "" && n != "_" {
			penv.vars[n] = v
		}
		penv.vars[fmt.Sprintf("result%d", i)] = v
		if i == 0 {
			penv.vars["result"] = v
		}
	}
	penv.ghostOf = &ghostCtx{is: is, recv: recv}
	for _, en := range ms.Ensures {
		x.assumeUnder(st.Guard, x.evalBool(penv, en.E))
	}
	return res
}

type ghostCtx struct {
	is   *IfaceSpec
	recv Val
}

// ghost fields of an interface value live in ghost heaps keyed by the
// interface's payload reference.
func (x *Exec) ghostAddr(is *IfaceSpec, name string, recv Val) *Addr {
	for _, g := range is.Ghost {
		if g.Name == name {
			genv := &SpecEnv{x: x}
			if sp, ok := x.P.SSA[is.Pkg]; ok {
				genv.pkg = sp.Pkg
			}
			t := x.resolveType(genv, g.Type)
			ref := recv.T
			if recv.T.Sort == "Iface" {
				ref = Term{app("i_val", recv.T), "Int"}
			}
			return &Addr{Kind: akGhost, Global: "ghost$" + sanitize(is.Name) + "$" + name, Ref: ref, RootT: t, T: t}
		}
	}
	panic(specErr("no ghost field %s on %s", name, is.Name))
}

func (x *Exec) bindGhost(env *SpecEnv, is *IfaceSpec, recv Val, st *State) {
	env.ghostOf = &ghostCtx{is: is, recv: recv}
}
