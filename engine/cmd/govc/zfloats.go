package main

import "strings"

// opaqueFloats: a function that only moves float64 values around (no arithmetic, no
// comparison, no conversion, no literal other than the zero value) does not need the
// SMT floating-point theory; with Float64 values inside datatypes and arrays that
// theory makes z3 give up on goals that have nothing to do with floats. For such a
// function the sort is replaced by an uninterpreted one (values are then only ever
// compared for identity, which is what moving them around needs).
func opaqueFloats(s *Script, obls []*Obligation) {
	uses := func(t string) bool {
		return strings.Contains(t, "fp.") || strings.Contains(t, "to_fp") || strings.Contains(t, "(fp ") ||
			strings.Contains(t, "NaN") || strings.Contains(t, "oo 11 53") || strings.Contains(t, "Float32")
	}
	mentions := false
	if uses(s.Preamble) {
		return
	}
	if strings.Contains(s.Preamble, "Float64") {
		mentions = true
	}
	for _, l := range s.Lines {
		if uses(l) {
			return
		}
		if !mentions && strings.Contains(l, "Float64") {
			mentions = true
		}
	}
	for _, o := range obls {
		if uses(o.Goal) {
			return
		}
	}
	if !mentions {
		return
	}
	r := strings.NewReplacer("(_ +zero 11 53)", "f64zero", "(_ -zero 11 53)", "f64negzero", "Float64", "F64")
	s.Preamble = "(declare-sort F64 0)\n(declare-const f64zero F64)\n(declare-const f64negzero F64)\n" + r.Replace(s.Preamble)
	for i, l := range s.Lines {
		s.Lines[i] = r.Replace(l)
	}
	for _, o := range obls {
		o.Goal = r.Replace(o.Goal)
	}
	s.OpaqueFloat = true
}
