package main

// Counterexample replay: a failed obligation whose negation the solver can satisfy
// is turned into concrete inputs for the real function, which is then run (in its own
// package, through `go test -overlay`, nothing is written into the repository). The
// replay reproduces the violation when
//   - the obligation is an implicit-panic obligation and the real code panics, or
//   - the obligation is a postcondition and the real code, run on the model's inputs,
//     returns exactly the outputs the model predicts (the verifier has derived that
//     those inputs/outputs falsify the clause), or panics instead of returning.
// Everything else (no model, inputs that cannot be constructed, a run that disagrees
// with the model) is reported as no-failing-input-found.

import (
	"encoding/json"
	"fmt"
	"go/types"
	"math/big"
	"os"
	"os/exec"
	"path/filepath"
	"sort"
	"strconv"
	"strings"

	"golang.org/x/tools/go/ssa"
)

// Obs is one observable component of an input or output value: its symbolic term in
// the function's script and, once a model is decoded, its concrete value.
type Obs struct {
	Path   string
	Kind   string // int bool str float time slice ptr struct err iface ctx unmodelled unsupported
	Typ    types.Type
	T      Term
	Len    Term
	Ref    Term
	Kids   []*Obs
	Field  string // struct member name (for kids of a struct)
	NoHeap bool   // slice whose element heap the function never touches
	// decoded
	Val, LenVal, RefVal string
}

const (
	obsElemsTop  = 10
	obsElemsDeep = 3
	obsMaxLeaves = 1500
)

// ReplayInfo is attached to an obligation when it is generated.
type ReplayInfo struct {
	Fn          *ssa.Function
	In          []*Obs
	Out         []*Obs // results and the post-state of what the inputs point to
	ExpectPanic bool
	StrConsts   map[string]string // Go string -> SMT constant
	BV          bool
	PrePrefix   int // script lines up to and including the preconditions
}

type obsBuilder struct {
	x      *Exec
	leaves int
}

func (b *obsBuilder) observe(st *State, v Term, t types.Type, path string, depth int) *Obs {
	x := b.x
	o := &Obs{Path: path, Typ: t, T: v}
	b.leaves++
	if depth > 5 || b.leaves > obsMaxLeaves {
		o.Kind = "unsupported"
		return o
	}
	if isTime(t) {
		o.Kind = "time"
		return o
	}
	if _, ok := isSetType(t); ok {
		o.Kind = "unsupported"
		return o
	}
	switch u := t.Underlying().(type) {
	case *types.Basic:
		switch {
		case u.Info()&types.IsBoolean != 0:
			o.Kind = "bool"
		case u.Info()&types.IsInteger != 0:
			o.Kind = "int"
		case u.Info()&types.IsString != 0:
			o.Kind = "str"
		case u.Kind() == types.Float64:
			o.Kind = "float"
		default:
			o.Kind = "unsupported"
		}
	case *types.Slice:
		o.Kind = "slice"
		ref, off, ln, _ := x.sliceParts(v)
		o.Len, o.Ref = ln, ref
		h, ok := st.Heaps["HS$"+x.S.typeTag(u.Elem())]
		if !ok {
			o.NoHeap = true
			return o
		}
		es := x.S.SortOf(u.Elem())
		inner := Term{app("select", h, ref), arraySort(x.S.Idx(), es)}
		k := obsElemsTop
		if depth > 1 {
			k = obsElemsDeep
		}
		for i := 0; i < k; i++ {
			et := mkSelect(inner, x.iAdd(off, x.S.IdxLit(int64(i))), es)
			o.Kids = append(o.Kids, b.observe(st, et, u.Elem(), fmt.Sprintf("%s[%d]", path, i), depth+1))
		}
	case *types.Pointer:
		o.Kind = "ptr"
		pt := u.Elem()
		if su, ok := asStruct(pt); ok {
			ss := x.S.SortOf(pt)
			kid := &Obs{Path: path, Kind: "struct", Typ: pt}
			for f := 0; f < su.NumFields(); f++ {
				fld := su.Field(f)
				fo := &Obs{Path: path + "." + fld.Name(), Kind: "unmodelled", Typ: fld.Type(), Field: fld.Name()}
				if h, ok := st.Heaps["H$"+strings.TrimPrefix(ss, "S_")+"$"+sanitize(fld.Name())]; ok {
					ft := mkSelect(h, v, x.S.SortOf(fld.Type()))
					fo = b.observe(st, ft, fld.Type(), path+"."+fld.Name(), depth+1)
					fo.Field = fld.Name()
				}
				kid.Kids = append(kid.Kids, fo)
			}
			o.Kids = []*Obs{kid}
		} else if _, isArr := pt.Underlying().(*types.Array); isArr {
			o.Kind = "unsupported"
		} else {
			kid := &Obs{Path: "(*" + path + ")", Kind: "unmodelled", Typ: pt}
			if h, ok := st.Heaps["HP$"+x.S.typeTag(pt)]; ok {
				kid = b.observe(st, mkSelect(h, v, x.S.SortOf(pt)), pt, "(*"+path+")", depth+1)
			}
			o.Kids = []*Obs{kid}
		}
	case *types.Struct:
		o.Kind = "struct"
		ss := x.S.SortOf(t)
		for f := 0; f < u.NumFields(); f++ {
			fld := u.Field(f)
			ft := Term{app(x.S.FieldSel(ss, u, f), v), x.S.SortOf(fld.Type())}
			fo := b.observe(st, ft, fld.Type(), path+"."+fld.Name(), depth+1)
			fo.Field = fld.Name()
			o.Kids = append(o.Kids, fo)
		}
	case *types.Interface:
		switch {
		case types.TypeString(t, nil) == "context.Context":
			o.Kind = "ctx"
		case types.TypeString(t, nil) == "error":
			o.Kind = "err"
		default:
			o.Kind = "iface"
		}
	default:
		o.Kind = "unsupported"
	}
	return o
}

// replayInputs builds the observation of the function's parameters in the entry state.
func (x *Exec) replayInputs(fn *ssa.Function, args []Val) []*Obs {
	b := &obsBuilder{x: x}
	var in []*Obs
	for i, p := range fn.Params {
		if len(args[i].Tuple) > 0 || args[i].T.S == "" {
			in = append(in, &Obs{Path: p.Name(), Kind: "unsupported", Typ: p.Type()})
			continue
		}
		in = append(in, b.observe(x.entry, args[i].T, p.Type(), paramName(p, i), 0))
	}
	return in
}

func paramName(p *ssa.Parameter, i int) string {
	n := p.Name()
	if n == "" || n == "_" {
		n = fmt.Sprintf("arg%d", i)
	}
	return "in_" + n
}

// replayOutputs: results plus the post-state of pointer/slice inputs.
func (x *Exec) replayOutputs(fn *ssa.Function, st *State, rets []Val) []*Obs {
	b := &obsBuilder{x: x}
	var out []*Obs
	res := fn.Signature.Results()
	for i := 0; i < res.Len() && i < len(rets); i++ {
		if rets[i].T.S == "" {
			out = append(out, &Obs{Path: fmt.Sprintf("r%d", i), Kind: "unsupported", Typ: res.At(i).Type()})
			continue
		}
		out = append(out, b.observe(st, rets[i].T, res.At(i).Type(), fmt.Sprintf("r%d", i), 0))
	}
	for i, p := range fn.Params {
		v, ok := x.replayArgs[i], i < len(x.replayArgs)
		if !ok || v.T.S == "" {
			continue
		}
		switch p.Type().Underlying().(type) {
		case *types.Pointer, *types.Slice:
			out = append(out, b.observe(st, v.T, p.Type(), paramName(p, i), 0))
		}
	}
	return out
}

// ---------- model extraction ----------

type obsQuery struct {
	terms []Term
	index map[string]int
}

func (q *obsQuery) add(t Term) {
	if t.S == "" {
		return
	}
	if _, ok := q.index[t.S]; ok {
		return
	}
	q.index[t.S] = len(q.terms)
	q.terms = append(q.terms, t)
}

func collectTerms(q *obsQuery, o *Obs, lens *[]*Obs) {
	switch o.Kind {
	case "int", "bool", "str", "float", "time", "ptr":
		q.add(o.T)
	case "err", "iface":
		q.add(Term{app("i_typ", o.T), "Int"})
	case "slice":
		q.add(o.Len)
		q.add(o.Ref)
		*lens = append(*lens, o)
	}
	for _, k := range o.Kids {
		collectTerms(q, k, lens)
	}
}

func fillValues(vals map[string]string, o *Obs) {
	switch o.Kind {
	case "int", "bool", "str", "float", "time", "ptr":
		o.Val = vals[o.T.S]
	case "err", "iface":
		o.Val = vals[app("i_typ", o.T)]
	case "slice":
		o.LenVal = vals[o.Len.S]
		o.RefVal = vals[o.Ref.S]
	}
	for _, k := range o.Kids {
		fillValues(vals, k)
	}
}

// sexpr parsing (just enough for get-value output)
type sx struct {
	atom string
	list []*sx
}

func parseSx(s string) []*sx {
	var stack [][]*sx
	cur := []*sx{}
	i := 0
	for i < len(s) {
		c := s[i]
		switch {
		case c == '(':
			stack = append(stack, cur)
			cur = []*sx{}
			i++
		case c == ')':
			n := &sx{list: cur}
			if n.list == nil {
				n.list = []*sx{}
			}
			if len(stack) == 0 {
				return cur
			}
			cur = append(stack[len(stack)-1], n)
			stack = stack[:len(stack)-1]
			i++
		case c == ' ' || c == '\n' || c == '\t' || c == '\r':
			i++
		case c == '|':
			j := strings.IndexByte(s[i+1:], '|')
			if j < 0 {
				return cur
			}
			cur = append(cur, &sx{atom: s[i : i+j+2]})
			i += j + 2
		case c == '"':
			j := i + 1
			for j < len(s) && s[j] != '"' {
				j++
			}
			cur = append(cur, &sx{atom: s[i:min(j+1, len(s))]})
			i = j + 1
		default:
			j := i
			for j < len(s) && !strings.ContainsRune("() \n\t\r", rune(s[j])) {
				j++
			}
			cur = append(cur, &sx{atom: s[i:j]})
			i = j
		}
	}
	return cur
}

func (n *sx) String() string {
	if n.list == nil {
		return n.atom
	}
	var parts []string
	for _, k := range n.list {
		parts = append(parts, k.String())
	}
	return "(" + strings.Join(parts, " ") + ")"
}

// smtInt decodes an Int or BitVec model value; for bit-vectors the raw unsigned value
// and the width are returned.
func smtInt(v string) (n *big.Int, width int, ok bool) {
	v = strings.TrimSpace(v)
	switch {
	case strings.HasPrefix(v, "#x"):
		n, ok = new(big.Int).SetString(v[2:], 16)
		return n, 4 * (len(v) - 2), ok
	case strings.HasPrefix(v, "#b"):
		n, ok = new(big.Int).SetString(v[2:], 2)
		return n, len(v) - 2, ok
	case strings.HasPrefix(v, "(- "):
		n, ok = new(big.Int).SetString(strings.TrimSuffix(strings.TrimSpace(v[3:]), ")"), 10)
		if ok {
			n.Neg(n)
		}
		return n, 0, ok
	case strings.HasPrefix(v, "(_ bv"):
		f := strings.Fields(strings.Trim(v, "()"))
		if len(f) == 3 {
			n, ok = new(big.Int).SetString(strings.TrimPrefix(f[1], "bv"), 10)
			w, _ := strconv.Atoi(f[2])
			return n, w, ok
		}
	}
	n, ok = new(big.Int).SetString(v, 10)
	return n, 0, ok
}

// goInt gives the Go value of an integer model value of Go type t.
func goInt(v string, t types.Type) (*big.Int, bool) {
	n, w, ok := smtInt(v)
	if !ok {
		return nil, false
	}
	b, isB := t.Underlying().(*types.Basic)
	if w > 0 && isB {
		_, signed := intWidth(b)
		if signed && n.Bit(w-1) == 1 {
			n = new(big.Int).Sub(n, new(big.Int).Lsh(big.NewInt(1), uint(w)))
		}
	}
	if isB && b.Info()&types.IsInteger != 0 {
		lo, hi := intRange(b)
		if n.Cmp(lo) < 0 || n.Cmp(hi) > 0 {
			return nil, false
		}
	}
	return n, true
}

func smtFloatBits(v string) (uint64, bool) {
	v = strings.TrimSpace(v)
	switch {
	case strings.HasPrefix(v, "(_ +zero"):
		return 0, true
	case strings.HasPrefix(v, "(_ -zero"):
		return 1 << 63, true
	case strings.HasPrefix(v, "(_ +oo"):
		return 0x7FF0000000000000, true
	case strings.HasPrefix(v, "(_ -oo"):
		return 0xFFF0000000000000, true
	case strings.HasPrefix(v, "(_ NaN"):
		return 0x7FF8000000000001, true
	case strings.HasPrefix(v, "(fp "):
		f := strings.Fields(strings.Trim(v, "()"))
		if len(f) != 4 {
			return 0, false
		}
		s, _, ok1 := smtInt(f[1])
		e, _, ok2 := smtInt(f[2])
		m, _, ok3 := smtInt(f[3])
		if !ok1 || !ok2 || !ok3 {
			return 0, false
		}
		return s.Uint64()<<63 | e.Uint64()<<52 | m.Uint64(), true
	}
	return 0, false
}

// ---------- Go source generation ----------

type goGen struct {
	pkg      *types.Package
	imports  map[string]string // path -> name
	decls    []string
	ptrs     map[string]string // type|ref -> variable
	sliceRef map[string]string // ref -> path of the slice that owns it
	strs     map[string]string // SMT Str value -> Go literal
	nstr     int
	nvar     int
	notes    []string
	fail     string
	bv       bool
	f64      map[string]uint64 // abstract float value -> bits of the float it was given
}

// opaqueFloat: in a script where float64 is an uninterpreted sort the model's values are
// abstract; each distinct one becomes a distinct ordinary float (1.0 plus k ulps).
func (g *goGen) opaqueFloat(v string) (uint64, bool) {
	if v == "f64zero" {
		return 0, true
	}
	if v == "f64negzero" {
		return 1 << 63, true
	}
	if !strings.HasPrefix(v, "F64!val!") {
		return 0, false
	}
	if g.f64 == nil {
		g.f64 = map[string]uint64{}
	}
	if b, ok := g.f64[v]; ok {
		return b, true
	}
	b := uint64(0x3ff0000000000000) + uint64(len(g.f64)) + 1
	g.f64[v] = b
	return b, true
}

func (g *goGen) qual(p *types.Package) string {
	if p == g.pkg {
		return ""
	}
	g.imports[p.Path()] = p.Name()
	return p.Name()
}

func (g *goGen) typ(t types.Type) string { return types.TypeString(t, g.qual) }

func (g *goGen) accessible(st types.Type, fld *types.Var) bool {
	return fld.Exported() || fld.Pkg() == g.pkg
}

func (g *goGen) strLit(v string) string {
	if s, ok := g.strs[v]; ok {
		return s
	}
	g.nstr++
	s := strconv.Quote(fmt.Sprintf("gvc-%d", g.nstr))
	g.strs[v] = s
	return s
}

// expr renders the decoded observation as a Go expression.
func (g *goGen) expr(o *Obs) string {
	if g.fail != "" {
		return "nil"
	}
	switch o.Kind {
	case "int":
		n, ok := goInt(o.Val, o.Typ)
		if !ok {
			g.fail = fmt.Sprintf("%s: integer value %q outside %s", o.Path, o.Val, o.Typ)
			return "0"
		}
		return fmt.Sprintf("%s(%s)", g.typ(o.Typ), n.String())
	case "bool":
		if o.Val != "true" && o.Val != "false" {
			g.fail = o.Path + ": no boolean value in the model"
		}
		return fmt.Sprintf("%s(%s)", g.typ(o.Typ), o.Val)
	case "str":
		return fmt.Sprintf("%s(%s)", g.typ(o.Typ), g.strLit(o.Val))
	case "float":
		bits, ok := smtFloatBits(o.Val)
		if !ok {
			bits, ok = g.opaqueFloat(o.Val)
		}
		if !ok {
			g.fail = o.Path + ": float value " + o.Val
		}
		g.imports["math"] = "math"
		return fmt.Sprintf("%s(math.Float64frombits(0x%x))", g.typ(o.Typ), bits)
	case "time":
		n, _, ok := smtInt(o.Val)
		if !ok {
			g.fail = o.Path + ": time value " + o.Val
			return "time.Time{}"
		}
		g.imports["time"] = "time"
		if n.Sign() == 0 {
			return "time.Time{}"
		}
		epoch, _ := new(big.Int).SetString(unixEpochNs, 10)
		u := new(big.Int).Sub(n, epoch)
		sec, nsec := new(big.Int).DivMod(u, big.NewInt(1000000000), new(big.Int))
		if !sec.IsInt64() {
			g.fail = o.Path + ": instant outside time.Time's range"
			return "time.Time{}"
		}
		return fmt.Sprintf("time.Unix(%s, %s).UTC()", sec, nsec)
	case "ctx":
		g.imports["context"] = "context"
		return "context.Background()"
	case "err", "iface":
		if n, _, ok := smtInt(o.Val); ok && n.Sign() == 0 {
			return "nil"
		}
		g.fail = fmt.Sprintf("%s: a non-nil value of interface type %s cannot be constructed from a model", o.Path, o.Typ)
		return "nil"
	case "slice":
		ln, ok := goInt(o.LenVal, types.Typ[types.Int])
		ref, _, ok2 := smtInt(o.RefVal)
		if !ok || !ok2 || !ln.IsInt64() {
			g.fail = o.Path + ": slice header not in the model"
			return "nil"
		}
		n := int(ln.Int64())
		if n == 0 && ref.Sign() == 0 {
			return fmt.Sprintf("%s(nil)", g.typ(o.Typ))
		}
		if o.NoHeap {
			return fmt.Sprintf("make(%s, %d)", g.typ(o.Typ), n)
		}
		if n > len(o.Kids) {
			g.fail = fmt.Sprintf("%s: model wants %d elements, more than the %d the replay observes", o.Path, n, len(o.Kids))
			return "nil"
		}
		if ref.Sign() != 0 && n > 0 {
			key := g.typ(o.Typ) + "|" + ref.String()
			if other, dup := g.sliceRef[key]; dup {
				g.fail = fmt.Sprintf("%s and %s share a backing array in the model (aliased inputs are not constructed)", other, o.Path)
				return "nil"
			}
			g.sliceRef[key] = o.Path
		}
		var es []string
		for i := 0; i < n; i++ {
			es = append(es, g.expr(o.Kids[i]))
		}
		return fmt.Sprintf("%s{%s}", g.typ(o.Typ), strings.Join(es, ", "))
	case "ptr":
		ref, _, ok := smtInt(o.Val)
		if !ok {
			g.fail = o.Path + ": pointer not in the model"
			return "nil"
		}
		if ref.Sign() == 0 {
			return fmt.Sprintf("(%s)(nil)", g.typ(o.Typ))
		}
		key := g.typ(o.Typ) + "|" + ref.String()
		if v, ok := g.ptrs[key]; ok {
			return v
		}
		g.nvar++
		name := fmt.Sprintf("obj%d", g.nvar)
		g.ptrs[key] = name
		pt := o.Typ.Underlying().(*types.Pointer).Elem()
		kid := o.Kids[0]
		if kid.Kind == "struct" {
			g.decls = append(g.decls, fmt.Sprintf("%s := &%s", name, g.structLit(kid, pt)))
		} else if kid.Kind == "unmodelled" || kid.Kind == "unsupported" {
			g.decls = append(g.decls, fmt.Sprintf("%s := new(%s)", name, g.typ(pt)))
		} else {
			g.decls = append(g.decls, fmt.Sprintf("%s := new(%s)\n*%s = %s", name, g.typ(pt), name, g.expr(kid)))
		}
		return name
	case "struct":
		return g.structLit(o, o.Typ)
	case "unmodelled":
		return fmt.Sprintf("*new(%s)", g.typ(o.Typ))
	}
	g.fail = fmt.Sprintf("%s: a value of type %s cannot be constructed from a model", o.Path, o.Typ)
	return "nil"
}

func (g *goGen) structLit(o *Obs, t types.Type) string {
	su, _ := asStruct(t)
	var fs []string
	for i, k := range o.Kids {
		fld := su.Field(i)
		if k.Kind == "unmodelled" {
			continue
		}
		if k.Kind == "unsupported" || k.Kind == "iface" && k.Val != "0" {
			g.notes = append(g.notes, fmt.Sprintf("%s left at its zero value (type %s)", k.Path, k.Typ))
			continue
		}
		if !g.accessible(t, fld) {
			g.notes = append(g.notes, fmt.Sprintf("%s is unexported in another package: left at its zero value", k.Path))
			continue
		}
		if k.Kind == "struct" && allUnmodelled(k) {
			continue
		}
		fs = append(fs, fmt.Sprintf("%s: %s", fld.Name(), g.expr(k)))
	}
	return fmt.Sprintf("%s{%s}", g.typ(t), strings.Join(fs, ", "))
}

func allUnmodelled(o *Obs) bool {
	for _, k := range o.Kids {
		if k.Kind == "struct" {
			if !allUnmodelled(k) {
				return false
			}
		} else if k.Kind != "unmodelled" {
			return false
		}
	}
	return true
}

// printer emits Go statements that print the observable parts of expression e.
func (g *goGen) printer(o *Obs, e string, out *[]string) {
	p := strconv.Quote(o.Path)
	switch o.Kind {
	case "int":
		*out = append(*out, fmt.Sprintf("fmt.Printf(\"OBS %%s=%%d\\n\", %s, %s)", p, e))
	case "bool":
		*out = append(*out, fmt.Sprintf("fmt.Printf(\"OBS %%s=%%t\\n\", %s, %s)", p, e))
	case "str":
		*out = append(*out, fmt.Sprintf("fmt.Printf(\"OBS %%s=%%q\\n\", %s, string(%s))", p, e))
	case "float":
		g.imports["math"] = "math"
		*out = append(*out, fmt.Sprintf("fmt.Printf(\"OBS %%s=0x%%x\\n\", %s, math.Float64bits(float64(%s)))", p, e))
	case "time":
		*out = append(*out, fmt.Sprintf("if (%s).IsZero() { fmt.Printf(\"OBS %%s=zero\\n\", %s) } else { fmt.Printf(\"OBS %%s=%%d:%%d\\n\", %s, (%s).Unix(), (%s).Nanosecond()) }", e, p, p, e, e))
	case "err", "iface", "ctx":
		*out = append(*out, fmt.Sprintf("fmt.Printf(\"OBS %%s.nil=%%t\\n\", %s, %s == nil)", p, e))
	case "slice":
		*out = append(*out, fmt.Sprintf("fmt.Printf(\"OBS %%s.len=%%d\\n\", %s, len(%s))", p, e))
		for i, k := range o.Kids {
			var sub []string
			g.printer(k, fmt.Sprintf("%s[%d]", e, i), &sub)
			if len(sub) > 0 {
				*out = append(*out, fmt.Sprintf("if len(%s) > %d {\n%s\n}", e, i, strings.Join(sub, "\n")))
			}
		}
	case "ptr":
		*out = append(*out, fmt.Sprintf("fmt.Printf(\"OBS %%s.nil=%%t\\n\", %s, %s == nil)", p, e))
		if len(o.Kids) == 1 {
			var sub []string
			if o.Kids[0].Kind == "struct" {
				g.printer(o.Kids[0], e, &sub)
			} else {
				g.printer(o.Kids[0], "(*"+e+")", &sub)
			}
			if len(sub) > 0 {
				*out = append(*out, fmt.Sprintf("if %s != nil {\n%s\n}", e, strings.Join(sub, "\n")))
			}
		}
	case "struct":
		su, _ := asStruct(o.Typ)
		for i, k := range o.Kids {
			if su == nil || i >= su.NumFields() || !g.accessible(o.Typ, su.Field(i)) {
				continue
			}
			g.printer(k, e+"."+su.Field(i).Name(), out)
		}
	}
}

// predicted renders the model's value of every observable output the way the printer
// prints the real one.
func (g *goGen) predicted(o *Obs, m map[string]string) {
	switch o.Kind {
	case "int":
		if n, ok := goInt(o.Val, o.Typ); ok {
			m[o.Path] = n.String()
		}
	case "bool":
		if o.Val == "true" || o.Val == "false" {
			m[o.Path] = o.Val
		}
	case "str":
		if s, ok := g.strs[o.Val]; ok {
			m[o.Path] = s
		}
	case "float":
		if b, ok := smtFloatBits(o.Val); ok {
			m[o.Path] = fmt.Sprintf("0x%x", b)
		} else if b, ok := g.f64[o.Val]; ok {
			m[o.Path] = fmt.Sprintf("0x%x", b)
		}
	case "time":
		if n, _, ok := smtInt(o.Val); ok {
			if n.Sign() == 0 {
				m[o.Path] = "zero"
			} else {
				epoch, _ := new(big.Int).SetString(unixEpochNs, 10)
				u := new(big.Int).Sub(n, epoch)
				sec, nsec := new(big.Int).DivMod(u, big.NewInt(1000000000), new(big.Int))
				m[o.Path] = sec.String() + ":" + nsec.String()
			}
		}
	case "err", "iface":
		if n, _, ok := smtInt(o.Val); ok {
			m[o.Path+".nil"] = strconv.FormatBool(n.Sign() == 0)
		}
	case "slice":
		ln, ok := goInt(o.LenVal, types.Typ[types.Int])
		if !ok || !ln.IsInt64() {
			return
		}
		m[o.Path+".len"] = ln.String()
		for i, k := range o.Kids {
			if int64(i) < ln.Int64() {
				g.predicted(k, m)
			}
		}
	case "ptr":
		n, _, ok := smtInt(o.Val)
		if !ok {
			return
		}
		m[o.Path+".nil"] = strconv.FormatBool(n.Sign() == 0)
		if n.Sign() != 0 {
			for _, k := range o.Kids {
				g.predicted(k, m)
			}
		}
	case "struct":
		su, _ := asStruct(o.Typ)
		for i, k := range o.Kids {
			if su == nil || i >= su.NumFields() || !g.accessible(o.Typ, su.Field(i)) {
				continue
			}
			g.predicted(k, m)
		}
	}
}

// ---------- driver ----------

// ReplayResult records the outcome of running a solver model against the real code.
type ReplayResult struct {
	Attempted  bool              `json:"attempted"`
	Reproduced bool              `json:"reproduced"`
	How        string            `json:"how,omitempty"`
	Inputs     []string          `json:"inputs,omitempty"`
	Predicted  map[string]string `json:"predicted_outputs,omitempty"`
	Observed   map[string]string `json:"observed_outputs,omitempty"`
	Output     string            `json:"output,omitempty"`
	Note       string            `json:"note,omitempty"`
	Package    string            `json:"package,omitempty"`
	TestName   string            `json:"test_name,omitempty"`
	TestSource string            `json:"test_source,omitempty"`
	Cmd        string            `json:"cmd,omitempty"`
}

func scriptPrefix(o *Obligation, n int) string {
	var b strings.Builder
	b.WriteString(o.Script.Preamble)
	for _, l := range o.Script.Lines[:n] {
		b.WriteString(l)
		b.WriteString("\n")
	}
	return b.String()
}

func replayQuery(o *Obligation, q *obsQuery, lens []*Obs, bound int) string {
	var b strings.Builder
	b.WriteString(scriptPrefix(o, o.Prefix))
	b.WriteString("(assert (not " + o.Goal + "))\n")
	for _, s := range lens {
		k := len(s.Kids)
		if s.NoHeap {
			k = 64
		}
		if bound < k {
			k = bound
		}
		if o.Replay.BV {
			fmt.Fprintf(&b, "(assert (bvsle %s %s))\n", s.Len.S, bvLit(big.NewInt(int64(k)), 64).S)
		} else {
			fmt.Fprintf(&b, "(assert (<= %s %d))\n", s.Len.S, k)
		}
	}
	var names []string
	for i, t := range q.terms {
		fmt.Fprintf(&b, "(define-fun obs!%d () %s %s)\n", i, t.Sort, t.S)
		names = append(names, fmt.Sprintf("obs!%d", i))
	}
	b.WriteString("(check-sat)\n")
	// in chunks: one malformed value must not lose the rest
	for i := 0; i < len(names); i += 200 {
		b.WriteString("(get-value (" + strings.Join(names[i:min(i+200, len(names))], " ") + "))\n")
	}
	return b.String()
}

func parseValues(out string, q *obsQuery) map[string]string {
	vals := map[string]string{}
	for _, top := range parseSx(out) {
		for _, pair := range top.list {
			if len(pair.list) == 2 && strings.HasPrefix(pair.list[0].atom, "obs!") {
				i, _ := strconv.Atoi(strings.TrimPrefix(pair.list[0].atom, "obs!"))
				if i < len(q.terms) {
					vals[q.terms[i].S] = pair.list[1].String()
				}
			}
		}
	}
	return vals
}

// pinModel asserts the decoded model value of every observable input component.
func pinModel(o *Obs, strs map[string][]string, out *[]string) {
	pin := func(t Term, v string) {
		if v != "" && t.S != "" {
			*out = append(*out, fmt.Sprintf("(assert (= %s %s))", t.S, v))
		}
	}
	switch o.Kind {
	case "float":
		if !strings.HasPrefix(o.Val, "F64!") {
			pin(o.T, o.Val)
		}
	case "int", "bool", "time", "ptr":
		pin(o.T, o.Val)
	case "err", "iface":
		pin(Term{app("i_typ", o.T), "Int"}, o.Val)
	case "str":
		if o.Val != "" {
			strs[o.Val] = append(strs[o.Val], o.T.S)
		}
	case "slice":
		pin(o.Len, o.LenVal)
		pin(o.Ref, o.RefVal)
		n := 0
		if ln, ok := goInt(o.LenVal, types.Typ[types.Int]); ok && ln.IsInt64() {
			n = int(ln.Int64())
		}
		for i, k := range o.Kids {
			if i < n {
				pinModel(k, strs, out)
			}
		}
		return
	}
	for _, k := range o.Kids {
		pinModel(k, strs, out)
	}
}

// pinObserved asserts what the real run printed for every observable output component.
func pinObserved(o *Obs, obs map[string]string, out *[]string, bv bool) {
	lit := func(n *big.Int, t types.Type) string {
		if bv {
			w := 64
			if b, ok := t.Underlying().(*types.Basic); ok {
				w, _ = intWidth(b)
			}
			m := new(big.Int).Mod(n, new(big.Int).Lsh(big.NewInt(1), uint(w)))
			return bvLit(m, w).S
		}
		return bigLit(n).S
	}
	switch o.Kind {
	case "int":
		if v, ok := obs[o.Path]; ok {
			if n, ok := new(big.Int).SetString(v, 10); ok {
				*out = append(*out, fmt.Sprintf("(assert (= %s %s))", o.T.S, lit(n, o.Typ)))
			}
		}
	case "bool":
		if v, ok := obs[o.Path]; ok && (v == "true" || v == "false") {
			*out = append(*out, fmt.Sprintf("(assert (= %s %s))", o.T.S, v))
		}
	case "float":
		if v, ok := obs[o.Path]; ok {
			if bits, err := strconv.ParseUint(strings.TrimPrefix(v, "0x"), 16, 64); err == nil {
				if bits&0x7FF0000000000000 == 0x7FF0000000000000 && bits&0xFFFFFFFFFFFFF != 0 {
					*out = append(*out, fmt.Sprintf("(assert (fp.isNaN %s))", o.T.S))
				} else {
					*out = append(*out, fmt.Sprintf("(assert (= %s (fp #b%d #b%011b #x%013x)))", o.T.S, bits>>63, (bits>>52)&0x7FF, bits&0xFFFFFFFFFFFFF))
				}
			}
		}
	case "time":
		if v, ok := obs[o.Path]; ok {
			if v == "zero" {
				*out = append(*out, fmt.Sprintf("(assert (= %s 0))", o.T.S))
			} else if f := strings.SplitN(v, ":", 2); len(f) == 2 {
				sec, ok1 := new(big.Int).SetString(f[0], 10)
				ns, ok2 := new(big.Int).SetString(f[1], 10)
				if ok1 && ok2 {
					epoch, _ := new(big.Int).SetString(unixEpochNs, 10)
					n := new(big.Int).Add(new(big.Int).Mul(sec, big.NewInt(1000000000)), ns)
					n.Add(n, epoch)
					*out = append(*out, fmt.Sprintf("(assert (= %s %s))", o.T.S, bigLit(n).S))
				}
			}
		}
	case "err", "iface":
		if v, ok := obs[o.Path+".nil"]; ok {
			if v == "true" {
				*out = append(*out, fmt.Sprintf("(assert (= (i_typ %s) 0))", o.T.S))
			} else {
				*out = append(*out, fmt.Sprintf("(assert (not (= (i_typ %s) 0)))", o.T.S))
			}
		}
	case "ptr":
		v, ok := obs[o.Path+".nil"]
		if !ok {
			return
		}
		if v == "true" {
			*out = append(*out, fmt.Sprintf("(assert (= %s 0))", o.T.S))
			return
		}
		*out = append(*out, fmt.Sprintf("(assert (not (= %s 0)))", o.T.S))
		for _, k := range o.Kids {
			pinObserved(k, obs, out, bv)
		}
	case "slice":
		v, ok := obs[o.Path+".len"]
		if !ok {
			return
		}
		n, err := strconv.Atoi(v)
		if err != nil {
			return
		}
		*out = append(*out, fmt.Sprintf("(assert (= %s %s))", o.Len.S, lit(big.NewInt(int64(n)), types.Typ[types.Int])))
		for i, k := range o.Kids {
			if i < n {
				pinObserved(k, obs, out, bv)
			}
		}
	case "struct":
		for _, k := range o.Kids {
			pinObserved(k, obs, out, bv)
		}
	}
}

func strPins(strs map[string][]string, consts map[string]string, vals map[string]string) []string {
	var out []string
	var reps []string
	constVal := map[string]string{}
	for _, c := range consts {
		if v, ok := vals[c]; ok {
			constVal[v] = c
		}
	}
	var keys []string
	for v := range strs {
		keys = append(keys, v)
	}
	sort.Strings(keys)
	for _, v := range keys {
		ts := strs[v]
		rep := ts[0]
		if c, ok := constVal[v]; ok {
			rep = c
			out = append(out, fmt.Sprintf("(assert (= %s %s))", ts[0], c))
		} else {
			reps = append(reps, rep)
		}
		for _, t := range ts[1:] {
			out = append(out, fmt.Sprintf("(assert (= %s %s))", t, rep))
		}
	}
	if len(reps) > 0 {
		var cs []string
		for _, c := range consts {
			cs = append(cs, c)
		}
		sort.Strings(cs)
		all := append(reps, cs...)
		if len(all) > 1 {
			out = append(out, "(assert (distinct "+strings.Join(all, " ")+"))")
		}
	}
	return out
}

func countOutLeaves(os []*Obs, n map[string]int) {
	for _, o := range os {
		n[o.Kind]++
		countOutLeaves(o.Kids, n)
	}
}

// TryReplay turns the model of a failed obligation into a run of the real function.
func pkgOf(fn *ssa.Function) *types.Package {
	if fn.Pkg != nil {
		return fn.Pkg.Pkg
	}
	if o := fn.Origin(); o != nil && o.Pkg != nil {
		return o.Pkg.Pkg // instance of a generic function
	}
	if ob := fn.Object(); ob != nil {
		return ob.Pkg()
	}
	return nil
}

func TryReplay(P *Program, db *SpecDB, id string, o *Obligation) (rr *ReplayResult) {
	rr = &ReplayResult{}
	defer func() {
		// a replay is an extra: a failure inside it must never change the verdict
		if r := recover(); r != nil {
			rr = &ReplayResult{Note: fmt.Sprint("replay generator failed: ", r)}
		}
	}()
	ri := o.Replay
	if ri == nil || ri.Fn == nil {
		rr.Note = "no replay: this obligation is not about one run of a function from its entry (lemma, loop-invariant step or call-site precondition)"
		return rr
	}
	q := &obsQuery{index: map[string]int{}}
	var lens []*Obs
	for _, in := range ri.In {
		collectTerms(q, in, &lens)
	}
	nIn := len(lens)
	for _, out := range ri.Out {
		collectTerms(q, out, &lens)
	}
	var consts []string
	for s := range ri.StrConsts {
		consts = append(consts, s)
	}
	sort.Strings(consts)
	for _, s := range consts {
		q.add(Term{ri.StrConsts[s], "Str"})
	}
	// 1. inputs: a model the solver confirms, or failing that the candidate model a
	// solver leaves behind when quantified premises keep it from answering
	var vals map[string]string
	confirmed := false
	// iterative deepening on the length of the input slices: quantified premises over
	// arrays are decided at once for one or two elements and rarely for ten
	bounds := []int{1, 2, 3, obsElemsTop}
	if nIn == 0 {
		bounds = []int{obsElemsTop}
	}
search:
	for _, bound := range bounds {
		query := replayQuery(o, q, lens[:nIn], bound)
		for _, sv := range []SolverCfg{solvers[1], solvers[2]} {
			res, so, _ := runSolver(sv, query, 8)
			if res == "unsat" {
				break
			}
			if res != "sat" && res != "unknown" {
				continue
			}
			v := parseValues(so, q)
			if len(v) == 0 && len(q.terms) > 0 {
				continue
			}
			if res == "sat" {
				vals, confirmed = v, true
				break search
			}
			if vals == nil {
				vals = v
			}
		}
	}
	if vals == nil {
		rr.Note = "no model with inputs small enough to construct (slices of at most " + strconv.Itoa(obsElemsTop) + " elements) was found"
		return rr
	}
	for _, in := range ri.In {
		fillValues(vals, in)
	}
	for _, ob := range ri.Out {
		fillValues(vals, ob)
	}
	fn := ri.Fn
	g := &goGen{pkg: pkgOf(fn), imports: map[string]string{"fmt": "fmt", "testing": "testing"}, ptrs: map[string]string{},
		sliceRef: map[string]string{}, strs: map[string]string{}, bv: ri.BV}
	for _, s := range consts {
		if v, ok := vals[ri.StrConsts[s]]; ok {
			g.strs[v] = strconv.Quote(s)
		}
	}
	var argExprs []string
	for _, in := range ri.In {
		e := g.expr(in)
		if g.fail != "" {
			rr.Note = "inputs cannot be constructed: " + g.fail
			return rr
		}
		if e == "nil" {
			g.decls = append(g.decls, fmt.Sprintf("var %s %s", in.Path, g.typ(in.Typ)))
		} else {
			g.decls = append(g.decls, fmt.Sprintf("%s := %s", in.Path, e))
		}
		argExprs = append(argExprs, in.Path)
	}
	for _, d := range g.decls {
		rr.Inputs = append(rr.Inputs, strings.TrimPrefix(d, "in_"))
	}
	// the inputs as assertions (used to validate a candidate model and to evaluate the
	// clause on the real run)
	var pins []string
	strs := map[string][]string{}
	for _, in := range ri.In {
		pinModel(in, strs, &pins)
	}
	pins = append(pins, strPins(strs, ri.StrConsts, vals)...)
	if !confirmed {
		// the candidate must at least satisfy the function's preconditions
		vq := scriptPrefix(o, ri.PrePrefix) + strings.Join(pins, "\n") + "\n(check-sat)\n"
		ok := false
		for _, sv := range []SolverCfg{solvers[1], solvers[2]} {
			if res, _, _ := runSolver(sv, vq, 15); res == "sat" {
				ok = true
				break
			} else if res == "unsat" {
				break
			}
		}
		if !ok {
			rr.Note = "the solver left only a candidate model, and its inputs could not be confirmed to satisfy the preconditions"
			return rr
		}
	}
	// 2. the call
	sig := fn.Signature
	fname := fn.Name()
	if org := fn.Origin(); org != nil {
		var tas []string
		for _, ta := range fn.TypeArgs() {
			tas = append(tas, g.typ(ta))
		}
		fname = org.Name() + "[" + strings.Join(tas, ", ") + "]"
	}
	callArgs := argExprs
	call := ""
	if sig.Recv() != nil {
		callArgs = argExprs[1:]
		call = "(" + argExprs[0] + ")." + fname
	} else {
		call = fname
	}
	if sig.Variadic() && len(callArgs) > 0 {
		callArgs = append(append([]string{}, callArgs[:len(callArgs)-1]...), callArgs[len(callArgs)-1]+"...")
	}
	call += "(" + strings.Join(callArgs, ", ") + ")"
	var rnames []string
	for i := 0; i < sig.Results().Len(); i++ {
		rnames = append(rnames, fmt.Sprintf("r%d", i))
	}
	outs := ri.Out
	if outs == nil && !ri.ExpectPanic {
		outs = []*Obs{}
	}
	var prints []string
	for _, ob := range outs {
		g.printer(ob, ob.Path, &prints)
	}
	var body strings.Builder
	for _, d := range g.decls {
		body.WriteString("\t" + d + "\n")
	}
	for _, a := range argExprs {
		body.WriteString("\t_ = " + a + "\n")
	}
	body.WriteString("\tfunc() {\n\t\tdefer func() {\n\t\t\tif r := recover(); r != nil {\n\t\t\t\tfmt.Printf(\"OBS panic=%q\\n\", fmt.Sprint(r))\n\t\t\t}\n\t\t}()\n")
	if len(rnames) > 0 {
		body.WriteString("\t\t" + strings.Join(rnames, ", ") + " := " + call + "\n")
		for _, r := range rnames {
			body.WriteString("\t\t_ = " + r + "\n")
		}
	} else {
		body.WriteString("\t\t" + call + "\n")
	}
	body.WriteString("\t\tfmt.Println(\"OBS returned=true\")\n")
	for _, p := range prints {
		body.WriteString("\t\t" + strings.ReplaceAll(p, "\n", "\n\t\t") + "\n")
	}
	body.WriteString("\t}()\n")
	var imps []string
	for p, n := range g.imports {
		if filepath.Base(p) == n {
			imps = append(imps, strconv.Quote(p))
		} else {
			imps = append(imps, n+" "+strconv.Quote(p))
		}
	}
	sort.Strings(imps)
	testName := "TestGovcReplay"
	src := fmt.Sprintf("package %s\n\nimport (\n\t%s\n)\n\n// generated by govc from the counterexample of obligation\n//   %s\nfunc %s(t *testing.T) {\n%s}\n",
		pkgOf(fn).Name(), strings.Join(imps, "\n\t"), o.Name, testName, body.String())
	rr.TestSource = src
	rr.TestName = testName
	rr.Package = strings.TrimPrefix(strings.TrimPrefix(pkgOf(fn).Path(), modulePath), "/")
	if confirmed {
		rr.Predicted = map[string]string{}
		for _, ob := range ri.Out {
			g.predicted(ob, rr.Predicted)
		}
	}
	if len(g.notes) > 0 {
		// part of an input could not be built (an interface-typed field, an unexported
		// field of another package): the run would start from a state the model does not
		// describe, and a panic or a difference would mean nothing
		rr.Note = strings.TrimSpace(rr.Note + " inputs only partly constructible, not run: " + strings.Join(g.notes, "; "))
		rr.TestSource = ""
		return rr
	}
	runReplay(P.Repo, rr)
	judgeReplay(rr, ri.ExpectPanic, o.Kind)
	if rr.Reproduced || o.Kind != "post" || len(rr.Observed) == 0 {
		return rr
	}
	if _, panicked := rr.Observed["panic"]; panicked {
		return rr
	}
	// 3. evaluate the clause on the real run: with the inputs and the observed outputs
	// asserted, the negated clause must still be satisfiable
	var opins []string
	for _, ob := range ri.Out {
		pinObserved(ob, rr.Observed, &opins, ri.BV)
	}
	kinds := map[string]int{}
	countOutLeaves(ri.Out, kinds)
	if o.Script.OpaqueFloat && kinds["float"] > 0 {
		rr.Note = strings.TrimSpace(rr.Note + " the clause was not evaluated on the real run's outputs: floats are abstract in this function's script")
		return rr
	}
	eq := scriptPrefix(o, o.Prefix) + strings.Join(pins, "\n") + "\n" + strings.Join(opins, "\n") + "\n(assert (not " + o.Goal + "))\n(check-sat)\n"
	for _, sv := range []SolverCfg{solvers[1], solvers[2]} {
		res, _, _ := runSolver(sv, eq, 20)
		if res == "sat" {
			rr.Reproduced = true
			rr.How = "the real function was run on the counterexample's inputs; with those inputs and the outputs it actually produced asserted, the solver confirms that the clause evaluates to false"
			if kinds["str"]+kinds["iface"]+kinds["unsupported"]+kinds["unmodelled"] > 0 {
				rr.How += " (components of the outputs the replay cannot observe -- strings, interface contents, unmodelled fields -- were left to the solver)"
			}
			rr.Note = ""
			return rr
		}
		if res == "unsat" {
			rr.Note = strings.TrimSpace(rr.Note + " evaluated on the real run's outputs the clause holds: these inputs do not falsify it")
			return rr
		}
	}
	rr.Note = strings.TrimSpace(rr.Note + " the clause could not be evaluated on the real run's outputs within the time limit")
	return rr
}

// runReplay injects the generated test into the package with -overlay and runs it.
func runReplay(repo string, rr *ReplayResult) {
	rr.Attempted = true
	dir, err := os.MkdirTemp("", "govc-replay-")
	if err != nil {
		rr.Note += " (cannot create scratch dir: " + err.Error() + ")"
		return
	}
	defer os.RemoveAll(dir)
	pkgDir := filepath.Join(repo, rr.Package)
	tf := filepath.Join(dir, "zz_govc_replay_test.go")
	os.WriteFile(tf, []byte(rr.TestSource), 0o644)
	repl := map[string]string{filepath.Join(pkgDir, "zz_govc_replay_test.go"): tf}
	// The package's own test files are blanked in the overlay (package clause only): the
	// replay needs none of them, and their imports are what makes several test binaries of
	// this repository fail at start-up in the sandbox (flux's stdlib initialisation).
	if ents, err := os.ReadDir(pkgDir); err == nil {
		n := 0
		for _, e := range ents {
			if e.IsDir() || !strings.HasSuffix(e.Name(), "_test.go") {
				continue
			}
			src, err := os.ReadFile(filepath.Join(pkgDir, e.Name()))
			if err != nil {
				continue
			}
			clause := ""
			for _, ln := range strings.Split(string(src), "\n") {
				if strings.HasPrefix(ln, "package ") {
					clause = strings.TrimSpace(ln)
					break
				}
			}
			if clause == "" {
				continue
			}
			n++
			sf := filepath.Join(dir, fmt.Sprintf("blank%d_test.go", n))
			os.WriteFile(sf, []byte(clause+"\n"), 0o644)
			repl[filepath.Join(pkgDir, e.Name())] = sf
		}
	}
	ov, _ := json.Marshal(map[string]interface{}{"Replace": repl})
	ovf := filepath.Join(dir, "overlay.json")
	os.WriteFile(ovf, ov, 0o644)
	args := []string{"test", "-tags", "verif", "-overlay", ovf, "-vet=off", "-count=1", "-timeout", "60s", "-run", "^" + rr.TestName + "$", "-v", "./" + rr.Package}
	if rr.Package == "" {
		args[len(args)-1] = "."
	}
	cmd := exec.Command("go", args...)
	cmd.Dir = repo
	stub := filepath.Join(verifRoot, "stubs", "libflux")
	cmd.Env = append(os.Environ(), "GOFLAGS=-mod=mod", "GOPROXY=off", "GOTOOLCHAIN=auto", "GOWORK=off", "CGO_ENABLED=1",
		"PKG_CONFIG_PATH="+stub, "CGO_LDFLAGS=-L"+stub)
	rr.Cmd = "cd " + repo + " && go " + strings.Join(args, " ") + "   (overlay: zz_govc_replay_test.go = test_source)"
	outb, _ := cmd.CombinedOutput()
	rr.Output = truncate(string(outb), 6000)
	rr.Observed = map[string]string{}
	for _, ln := range strings.Split(string(outb), "\n") {
		ln = strings.TrimSpace(ln)
		if strings.HasPrefix(ln, "OBS ") {
			kv := strings.SplitN(ln[4:], "=", 2)
			if len(kv) == 2 {
				rr.Observed[kv[0]] = kv[1]
			}
		}
	}
}

func judgeReplay(rr *ReplayResult, expectPanic bool, kind string) {
	if !rr.Attempted {
		return
	}
	if len(rr.Observed) == 0 {
		rr.Note = strings.TrimSpace(rr.Note + " the generated test did not build or did not run (see output)")
		return
	}
	if p, ok := rr.Observed["panic"]; ok {
		rr.Reproduced = true
		rr.How = "the real function panics on the counterexample's inputs: " + p
		return
	}
	if expectPanic {
		rr.Note = strings.TrimSpace(rr.Note + " the real function returned normally on these inputs")
		return
	}
	if kind != "post" {
		return
	}
	if len(rr.Predicted) == 0 {
		rr.Note = strings.TrimSpace(rr.Note + " the function has no observable outputs to compare")
		return
	}
	var diff []string
	for k, v := range rr.Predicted {
		if ov, ok := rr.Observed[k]; !ok || ov != v {
			diff = append(diff, fmt.Sprintf("%s: model %s, real %s", k, v, ov))
		}
	}
	sort.Strings(diff)
	if len(diff) == 0 {
		rr.Reproduced = true
		rr.How = "the real function, run on the counterexample's inputs, returns exactly the outputs of the counterexample, for which the verifier evaluates the clause to false"
		return
	}
	if len(diff) > 8 {
		diff = diff[:8]
	}
	rr.Note = strings.TrimSpace(rr.Note + " the real run differs from the model (the model went through an abstraction): " + strings.Join(diff, "; "))
}

// cmdReplay re-runs the test recorded in a replay file against the current tree.
func cmdReplay(args []string) int {
	repo := "/repo"
	var files []string
	for i := 0; i < len(args); i++ {
		if args[i] == "--repo" {
			repo = args[i+1]
			i++
		} else {
			files = append(files, args[i])
		}
	}
	if len(files) != 1 {
		usage()
	}
	data, err := os.ReadFile(files[0])
	if err != nil {
		fmt.Fprintln(os.Stderr, err)
		return 2
	}
	var doc struct {
		Property  string `json:"property"`
		Violation struct {
			Obligation string        `json:"obligation"`
			Reason     string        `json:"reason"`
			Detail     string        `json:"detail"`
			Kind       string        `json:"kind"`
			Replay     *ReplayResult `json:"replay"`
		} `json:"violation"`
	}
	if err := json.Unmarshal(data, &doc); err != nil {
		fmt.Fprintln(os.Stderr, err)
		return 2
	}
	fmt.Printf("property %s, obligation %s (%s)\n%s\n", doc.Property, doc.Violation.Obligation, doc.Violation.Reason, doc.Violation.Detail)
	rr := doc.Violation.Replay
	if rr == nil || rr.TestSource == "" {
		fmt.Println("this violation carries no failing input (no-failing-input-found); the solver output is in the file")
		return 0
	}
	was := rr.Reproduced
	rr.Reproduced, rr.How = false, ""
	runReplay(repo, rr)
	judgeReplay(rr, doc.Violation.Kind != "post", doc.Violation.Kind)
	for _, in := range rr.Inputs {
		fmt.Println("  input:", in)
	}
	fmt.Println(rr.Output)
	if rr.Reproduced {
		fmt.Println("REPRODUCED:", rr.How)
		return 1
	}
	fmt.Printf("not reproduced on this tree (recorded run reproduced: %v) %s\n", was, rr.Note)
	return 0
}

var srcCache = map[string][]string{}

func (P *Program) sourceLines(file string) []string {
	if l, ok := srcCache[file]; ok {
		return l
	}
	data, err := os.ReadFile(file)
	if err != nil {
		srcCache[file] = nil
		return nil
	}
	l := strings.Split(string(data), "\n")
	srcCache[file] = l
	return l
}
