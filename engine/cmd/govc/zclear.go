package main

import (
	"fmt"
	"go/types"

	"golang.org/x/tools/go/ssa"
)

// builtinClear models clear(x): for a slice, every element in [0, len) becomes the zero
// value of the element type and nothing else in the backing array changes; for a map,
// the key set becomes empty.
func (x *Exec) builtinClear(fr *Frame, st *State, c *ssa.CallCommon) {
	arg := c.Args[0]
	switch u := arg.Type().Underlying().(type) {
	case *types.Slice:
		d := x.val(fr, arg).T
		es := x.S.SortOf(u.Elem())
		asrt := arraySort(x.S.Idx(), es)
		hn, hs := x.S.ElemHeapT(u.Elem())
		h := x.heapGet(st, hn, hs)
		ref, off, ln, _ := x.sliceParts(d)
		darr := x.declareEq("clr_old", Term{app("select", h, ref), asrt})
		rarr := x.declare("clr", asrt)
		zero := x.zeroOf(u.Elem())
		k := "k!z"
		kt := Term{k, x.S.Idx()}
		x.assume(Term{fmt.Sprintf("(forall ((%s %s)) (! (= (select %s %s) (ite (and %s %s) %s (select %s %s))) :pattern ((select %s %s)) :pattern ((select %s %s))))",
			k, x.S.Idx(), rarr.S, k,
			x.iLe(off, kt).S, x.iLt(kt, x.iAdd(off, ln)).S,
			zero.S, darr.S, k, rarr.S, k, darr.S, k), "Bool"})
		x.heapSet(st, hn, mkStore(h, ref, rarr))
	case *types.Map:
		m := x.val(fr, arg).T
		dn, ds, _, _ := x.mapHeaps(u)
		dh := x.heapGet(st, dn, ds)
		ks := x.S.SortOf(u.Key())
		x.heapSet(st, dn, mkStore(dh, m, Term{fmt.Sprintf("((as const %s) false)", arraySort(ks, "Bool")), arraySort(ks, "Bool")}))
	default:
		panic(toolErr("clear() of " + arg.Type().String() + " not modelled"))
	}
}
