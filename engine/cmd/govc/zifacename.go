package main

import (
	"go/types"
	"strings"

	"golang.org/x/tools/go/ssa"
)

// specIfaceName gives the key of the interface specification for the interface-typed
// spec expression xe of type t: the type's name, or "pkg.Struct.field" for a dependency
// declared as an anonymous interface type on a struct field (as at invoke sites).
func (x *Exec) specIfaceName(env *SpecEnv, xe Expr, t types.Type) string {
	name := types.TypeString(t, func(p *types.Package) string { return p.Name() })
	if _, named := t.(*types.Named); named {
		return name
	}
	if ef, ok := xe.(EField); ok {
		bt := x.evalVal(env, ef.X).Typ
		if bt != nil {
			st := bt
			if pt := pointee(bt); pt != nil {
				st = pt
			}
			if _, ok := asStruct(st); ok {
				return shortTypeName(st) + "." + ef.Name
			}
		}
	}
	return name
}

// isPureContract: fn carries a contract (its own or an assumed one) that declares it pure.
func (x *Exec) isPureContract(fn *ssa.Function) bool {
	ct := x.contractFor(fn)
	return ct != nil && ct.Pure
}

// baseKey strips the "#case" suffix of an additional contract's key.
func baseKey(k string) string {
	if h := strings.LastIndex(k, "#"); h > 0 {
		return k[:h]
	}
	return k
}
