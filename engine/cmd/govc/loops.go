package main

import (
	"fmt"
	"go/types"
	"os"
	"sort"
	"strings"

	"golang.org/x/tools/go/ssa"
)

// loopTargets computes the heaps written inside a loop body (pass 2 uses the
// write sets recorded in pass 1).
func (x *Exec) loopTargets(li *loopInfo) (heaps []string, allocs bool) {
	set := map[string]bool{}
	for b := range li.body {
		for h := range x.writes[b] {
			if h == "$alloc" {
				allocs = true
				continue
			}
			set[h] = true
		}
	}
	for h := range set {
		heaps = append(heaps, h)
	}
	sort.Strings(heaps)
	return
}

func (x *Exec) findLoopSpec(fr *Frame, li *loopInfo) *LoopSpec {
	if !fr.top || x.contract == nil {
		return nil
	}
	for _, ls := range x.contract.Loops {
		if ls.Ordinal == li.ordinal {
			return ls
		}
	}
	return nil
}

// loopHead: assert the invariant on entry, havoc the loop targets, assume the
// invariant; returns the state an arbitrary iteration starts in.
func (x *Exec) loopHead(fr *Frame, li *loopInfo, st *State) *State {
	if !fr.top {
		panic(toolErr("loop in inlined function " + fr.fn.Name() + " (needs its own contract)"))
	}
	b := li.header
	spec := x.findLoopSpec(fr, li)
	li.spec = spec
	// 1. entry values of the φs
	entryPhi := map[*ssa.Phi]Val{}
	for _, ins := range b.Instrs {
		phi, ok := ins.(*ssa.Phi)
		if !ok {
			break
		}
		var t Term
		first := true
		for i := len(b.Preds) - 1; i >= 0; i-- {
			p := b.Preds[i]
			if fr.back[[2]int{p.Index, b.Index}] || fr.end[p] == nil {
				continue
			}
			g := x.edgeGuard(fr, p, b)
			v := x.val(fr, phi.Edges[i])
			if first {
				t = v.T
				first = false
			} else {
				t = mkIte(g, v.T, t)
			}
		}
		entryPhi[phi] = Val{T: t, Typ: phi.Type()}
	}
	// 2. invariant holds on entry
	if spec != nil {
		env := x.envAt(fr, b, st)
		env.phiOverride = entryPhi
		for k, inv := range spec.Invariants {
			g := x.evalBool(env, inv.E)
			x.oblige("inv-init", fmt.Sprintf("inv#%d.%d/init", li.ordinal, k+1), st.Guard, g, "loop invariant on entry: "+inv.Text, b.Instrs[0].Pos(), false)
		}
	}
	// 3. havoc
	ns := st.clone()
	var heaps []string
	allocs := true
	if x.discover {
		for h := range x.S.heaps {
			heaps = append(heaps, h)
		}
		sort.Strings(heaps)
	} else {
		heaps, allocs = x.loopTargets(li)
	}
	if spec != nil && spec.ModGiven && !x.discover {
		// loop frame given: heaps keep their pre-loop value except at the named cells;
		// that nothing else changes is an obligation at every back edge
		env0 := x.envAt(fr, b, st)
		env0.phiOverride = entryPhi
		entryExcl := x.modCells(env0, spec.Modifies)
		li.written = heaps
		li.needHeadExcl = true
		// At the head of an arbitrary iteration a heap equals its pre-loop value at every
		// reference that existed before the loop and is not a modifies target (as evaluated
		// on loop entry); cells allocated inside the loop, and the targets, are unknown.
		for _, h := range heaps {
			srt := x.S.heaps[h]
			pre, ok := st.Heaps[h]
			if !ok {
				continue
			}
			if !strings.HasPrefix(srt, "(Array Int ") {
				if len(entryExcl[h]) > 0 {
					ns.Heaps[h] = x.declare(h+"@L", srt)
				}
				continue
			}
			hf := x.declare(h+"@L", srt)
			conds := []Term{{fmt.Sprintf("(<= r!lh %s)", st.Alloc.S), "Bool"}}
			for _, r := range entryExcl[h] {
				conds = append(conds, mkNot(mkEq(Term{"r!lh", "Int"}, r)))
			}
			x.assume(Term{fmt.Sprintf("(forall ((r!lh Int)) (! (=> %s (= (select %s r!lh) (select %s r!lh))) :pattern ((select %s r!lh))))",
				mkAnd(conds...).S, hf.S, pre.S, hf.S), "Bool"})
			ns.Heaps[h] = hf
		}
	} else {
		for _, h := range heaps {
			ns.Heaps[h] = x.declare(h+"@L", x.S.heaps[h])
		}
	}
	if allocs {
		na := x.declare("alloc@L", "Int")
		x.assume(Term{app(">=", na, st.Alloc), "Bool"})
		ns.Alloc = na
	}
	for _, ins := range b.Instrs {
		phi, ok := ins.(*ssa.Phi)
		if !ok {
			break
		}
		v := x.declare(fr.prefix+phi.Name()+"@L", x.S.SortOf(phi.Type()))
		x.assume(x.typeInv(v, phi.Type(), 0))
		x.assume(x.refsBelow(v, phi.Type(), ns.Alloc, 0))
		fr.vals[phi] = Val{T: v, Typ: phi.Type()}
	}
	// 4. assume the invariant for the arbitrary iteration
	if spec != nil {
		env := x.envAt(fr, b, ns)
		for _, inv := range spec.Invariants {
			x.assumeUnder(ns.Guard, x.evalBool(env, inv.E))
		}
	}
	if li.needHeadExcl {
		// the cells this iteration may change, as named at its head
		li.excl = x.modCells(x.envAt(fr, b, ns), spec.Modifies)
	}
	fr.headSt[b] = ns.clone()
	return ns
}

// loopBack: the invariant is re-established along the back edge from -> header.
func (x *Exec) loopBack(fr *Frame, li *loopInfo, from *ssa.BasicBlock) {
	b := li.header
	spec := li.spec
	g := x.edgeGuard(fr, from, b)
	if spec == nil {
		return
	}
	st := fr.end[from].clone()
	st.Guard = g
	over := map[*ssa.Phi]Val{}
	for _, ins := range b.Instrs {
		phi, ok := ins.(*ssa.Phi)
		if !ok {
			break
		}
		for i, p := range b.Preds {
			if p == from {
				over[phi] = x.val(fr, phi.Edges[i])
			}
		}
	}
	env := x.envAt(fr, b, st)
	env.phiOverride = over
	for k, inv := range spec.Invariants {
		t := x.evalBool(env, inv.E)
		x.oblige("inv-keep", fmt.Sprintf("inv#%d.%d/keep@b%d", li.ordinal, k+1, x.backOrdinal(fr, li, from)), g, t, "loop invariant preserved: "+inv.Text, b.Instrs[0].Pos(), false)
	}
	for _, pn := range spec.Passes {
		// "passes G": an iteration that goes round the loop has been through the program
		// point of bind G (a step that must not be skipped for any element)
		r, ok := x.ghostReached[pn]
		if !ok {
			r = tFalse
		}
		why := "every iteration passes the program point of bind " + pn
		if u, ok := spec.PassesUnless[pn]; ok {
			r = mkOr(r, x.evalBool(env, u.E))
			why += " unless " + u.Text
		}
		x.oblige("inv-keep", fmt.Sprintf("passes#%d.%s/keep@b%d", li.ordinal, pn, x.backOrdinal(fr, li, from)), g, r, why, b.Instrs[0].Pos(), false)
	}
	if spec.ModGiven && !x.discover {
		head := fr.headSt[b]
		for _, h := range li.written {
			cur, ok1 := st.Heaps[h]
			old, ok2 := head.Heaps[h]
			if !ok1 || !ok2 || cur.S == old.S {
				continue
			}
			srt := x.S.heaps[h]
			var goal Term
			if strings.HasPrefix(srt, "(Array Int ") {
				conds := []Term{{fmt.Sprintf("(<= r!lf %s)", head.Alloc.S), "Bool"}, {"(> r!lf 0)", "Bool"}}
				for _, r := range li.excl[h] {
					conds = append(conds, mkNot(mkEq(Term{"r!lf", "Int"}, r)))
				}
				goal = Term{fmt.Sprintf("(forall ((r!lf Int)) (=> %s (= (select %s r!lf) (select %s r!lf))))", mkAnd(conds...).S, cur.S, old.S), "Bool"}
			} else {
				goal = mkEq(cur, old)
			}
			x.oblige("frame", fmt.Sprintf("lframe#%d.%s@b%d", li.ordinal, h, x.backOrdinal(fr, li, from)), g, goal,
				"loop frame: "+h+" changes only at the cells named by the loop's modifies clause", b.Instrs[0].Pos(), false)
		}
	}
	if spec.Decreases != nil {
		headEnv := x.envAt(fr, b, fr.headSt[b])
		v0 := x.evalVal(headEnv, spec.Decreases.E)
		v1 := x.evalVal(env, spec.Decreases.E)
		var goal Term
		if x.mode == ModeBV {
			goal = mkAnd(Term{app("bvsle", x.S.IdxLit(0), v0.T), "Bool"}, Term{app("bvslt", v1.T, v0.T), "Bool"})
		} else {
			goal = mkAnd(Term{app("<=", intLit(0), v0.T), "Bool"}, Term{app("<", v1.T, v0.T), "Bool"})
		}
		x.oblige("dec", fmt.Sprintf("dec#%d@b%d", li.ordinal, x.backOrdinal(fr, li, from)), g, goal, "variant decreases and is bounded: "+spec.Decreases.Text, b.Instrs[0].Pos(), false)
	}
}

// backOrdinal numbers the back edges of a loop in block order (stable under
// edits outside the loop).
func (x *Exec) backOrdinal(fr *Frame, li *loopInfo, from *ssa.BasicBlock) int {
	var idx []int
	for _, p := range li.header.Preds {
		if fr.back[[2]int{p.Index, li.header.Index}] {
			idx = append(idx, p.Index)
		}
	}
	sort.Ints(idx)
	for i, v := range idx {
		if v == from.Index {
			return i + 1
		}
	}
	return 0
}

// ---------- variable lookup for spec expressions ----------

type varCand struct {
	v     ssa.Value
	blk   *ssa.BasicBlock
	idx   int
	isAdr bool
	obj   types.Object
}

func (x *Exec) varCandidates(fr *Frame, name string) []varCand {
	var out []varCand
	for _, b := range fr.fn.Blocks {
		for i, ins := range b.Instrs {
			switch v := ins.(type) {
			case *ssa.Phi:
				if v.Comment == name {
					out = append(out, varCand{v: v, blk: b, idx: -1})
				}
			case *ssa.DebugRef:
				if obj := v.Object(); obj != nil && obj.Name() == name {
					if tv, isVar := obj.(*types.Var); !isVar || tv.IsField() {
						continue // struct fields are not local variables
					}
					c := varCand{v: v.X, blk: b, idx: i, isAdr: v.IsAddr, obj: obj}
					// The variable holds this value at the point of the reference. (An
					// earlier version moved the candidate to the point where the VALUE is
					// defined; after `value = unescaped` that made the name `value` denote
					// `unescaped` from the latter's definition on -- i.e. before the
					// assignment -- and program-point assertions inside the loop that builds
					// `unescaped` were evaluated against the wrong slice.)
					if os.Getenv("GOVC_OLDLOOKUP") == "" {
						out = append(out, c)
						continue
					}
					if di, ok := v.X.(ssa.Instruction); ok && di.Block() != nil {
						c.blk = di.Block()
						c.idx = instrIndex(di)
					} else {
						c.blk = fr.fn.Blocks[0]
						c.idx = -2
					}
					out = append(out, c)
				}
			}
		}
	}
	return out
}

func instrIndex(ins ssa.Instruction) int {
	for i, j := range ins.Block().Instrs {
		if j == ins {
			return i
		}
	}
	return -1
}

// lookupLocal finds the SSA value that holds source variable name at the start
// of block at (after its φs).
func (x *Exec) lookupLocal(fr *Frame, name string, at *ssa.BasicBlock, st *State) (Val, bool) {
	cands := x.varCandidates(fr, name)
	// a parameter is the variable's value until it is reassigned: the weakest candidate
	for _, p := range fr.fn.Params {
		if p.Name() == name {
			if _, ok := fr.vals[p]; ok {
				cands = append(cands, varCand{v: p, blk: fr.fn.Blocks[0], idx: -3})
			}
		}
	}
	var best *varCand
	for i := range cands {
		c := &cands[i]
		if _, ok := fr.vals[c.v]; !ok {
			if _, isConst := c.v.(*ssa.Const); !isConst {
				continue
			}
		}
		dom := c.blk == at && (c.idx < 0 || x.lookupAtEnd && (!x.lookupLimited || c.idx < x.lookupLimit)) || c.blk != at && c.blk.Dominates(at)
		if !dom {
			continue
		}
		if best == nil {
			best = c
			continue
		}
		// deeper in the dominator tree, or later in the same block
		if best.blk != c.blk && best.blk.Dominates(c.blk) || best.blk == c.blk && c.idx > best.idx {
			best = c
		}
	}
	if best == nil {
		return Val{}, false
	}
	if !best.isAdr && best.obj != nil {
		// The variable lives in a cell (captured by a closure, or its address is taken): a
		// value seen at an earlier read says nothing about later stores, the cell does.
		var cell *varCand
		for i := range cands {
			c := &cands[i]
			if !c.isAdr || c.obj != best.obj {
				continue
			}
			if _, ok := fr.vals[c.v]; !ok {
				continue
			}
			if !(c.blk == at && (c.idx < 0 || x.lookupAtEnd && (!x.lookupLimited || c.idx < x.lookupLimit)) || c.blk != at && c.blk.Dominates(at)) {
				continue
			}
			if cell == nil || cell.blk != c.blk && cell.blk.Dominates(c.blk) || cell.blk == c.blk && c.idx > cell.idx {
				cell = c
			}
		}
		if cell != nil {
			best = cell
		}
	}
	v := x.val(fr, best.v)
	if best.isAdr {
		t := pointee(best.v.Type())
		return Val{T: x.loadPtr(st, v, t), Typ: t}, true
	}
	return v, true
}

func (x *Exec) backEdgeOf(fr *Frame, b *ssa.BasicBlock) bool {
	_, ok := fr.loops[b]
	return ok
}

// modCells resolves modifies targets to (heap, excluded reference) pairs.
func (x *Exec) modCells(env *SpecEnv, mts []ModTarget) map[string][]Term {
	ex := map[string][]Term{}
	for _, mt := range mts {
		e := mt.E
		if ix, ok := e.(EIndex); ok {
			if id, ok := ix.I.(EIdent); ok && id.Name == "*" {
				v := x.evalVal(env, ix.X)
				sl, ok := v.Typ.Underlying().(*types.Slice)
				if !ok {
					panic(specErr("modifies %s[*]: not a slice", mt.Text))
				}
				hn, _ := x.S.ElemHeapT(sl.Elem())
				ex[hn] = append(ex[hn], Term{app("s_ref", v.T), "Int"})
				continue
			}
		}
		switch t := e.(type) {
		case EField:
			base := x.evalVal(env, t.X)
			pt := pointee(base.Typ)
			if pt == nil {
				panic(specErr("modifies %s: base is not a pointer", mt.Text))
			}
			su, _ := asStruct(pt)
			idx, _ := findField(su, t.Name)
			var a *Addr
			if idx < 0 {
				if a = x.ghostFieldAddr(pt, t.Name, base); a == nil {
					panic(specErr("modifies %s: no such field", mt.Text))
				}
			} else {
				a = x.fieldAddr(base, pt, idx)
			}
			hn, _, _ := x.rootHeap(a)
			ex[hn] = append(ex[hn], a.Ref)
		case EUnary:
			base := x.evalVal(env, t.X)
			pt := pointee(base.Typ)
			if su, ok := asStruct(pt); ok {
				ss := x.S.SortOf(pt)
				for i := 0; i < su.NumFields(); i++ {
					hn, _ := x.S.FieldHeap(ss, su, i)
					ex[hn] = append(ex[hn], base.T)
				}
			} else {
				hn, _ := x.S.CellHeapT(pt)
				ex[hn] = append(ex[hn], base.T)
			}
		case EIdent:
			// a local variable that lives in a cell (captured by a closure, or address-taken):
			// the cell itself is written
			done := false
			if env.fr != nil {
				for _, c := range x.varCandidates(env.fr, t.Name) {
					if !c.isAdr {
						continue
					}
					if pv, ok := env.fr.vals[c.v]; ok {
						pt := pointee(c.v.Type())
						if su, isS := asStruct(pt); isS {
							ss := x.S.SortOf(pt)
							for i := 0; i < su.NumFields(); i++ {
								hn, _ := x.S.FieldHeap(ss, su, i)
								ex[hn] = append(ex[hn], pv.T)
							}
						} else {
							hn, _ := x.S.CellHeapT(pt)
							ex[hn] = append(ex[hn], pv.T)
						}
						done = true
					}
				}
			}
			if !done {
				panic(specErr("modifies %s: not a local variable that lives in a cell", mt.Text))
			}
		default:
			panic(specErr("unsupported modifies target %s", mt.Text))
		}
	}
	return ex
}
