package main

import (
	"fmt"
	"go/types"
	"strings"
)

// ghostFieldAddr: the ghost cell "name" of the object base points to, if the
// struct type pt has a "ghoststruct" declaration with that field.
func (x *Exec) ghostFieldAddr(pt types.Type, name string, base Val) *Addr {
	tn := types.TypeString(pt, func(p *types.Package) string { return p.Name() })
	is, ok := x.DB.Ifaces["struct:"+tn]
	if !ok {
		return nil
	}
	for _, g := range is.Ghost {
		if g.Name == name {
			return x.ghostAddr(is, name, base)
		}
	}
	return nil
}

// lockStateOf evaluates the ghost "held" state of the mutex denoted by a field
// expression o.mu (0 = not held, 1 = shared, 2 = exclusive).
func (x *Exec) lockStateOf(env *SpecEnv, e Expr) Term {
	f, ok := e.(EField)
	if !ok {
		panic(specErr("locked(): argument must be a mutex field o.mu, found %s", e.exprString()))
	}
	base := x.evalVal(env, f.X)
	pt := pointee(base.Typ)
	if pt == nil {
		panic(specErr("locked(): %s is not a pointer to a struct", f.X.exprString()))
	}
	ss := x.S.SortOf(pt)
	key := fmt.Sprintf("lock$%s$%s", strings.TrimPrefix(ss, "S_"), sanitize(f.Name))
	a := &Addr{Kind: akGhost, Global: key, Ref: base.T, RootT: types.Typ[types.Int], T: types.Typ[types.Int]}
	return x.loadAddr(env.cur, a)
}
